"""CLI.

  python -m verifsim check C10 [--tier quick|thorough] [--seed N] [--n N]
  python -m verifsim replay <file>
  python -m verifsim digests C10 --seed N --tier quick --idxs 0,5,9     (internal)
  python -m verifsim selftest [--seeds N]

Exit 0: the property held on everything explored (KNOWN-FINDING lines may be
printed).  Exit 1: at least one `VIOLATION property=<id> replay=<path>` line.
Exit 2: harness error / nondeterminism / inconclusive batch.
"""
import argparse
import json
import os
import sys

# the module must be importable as `verifsim` exactly once (python -m loads
# __main__ separately; everything else is imported by its package name)


def main(argv=None):
    ap = argparse.ArgumentParser(prog="verifsim")
    sub = ap.add_subparsers(dest="cmd", required=True)
    c = sub.add_parser("check")
    c.add_argument("prop")
    c.add_argument("--tier", default=os.environ.get("VERIF_TIER", "quick"), choices=["quick", "thorough"])
    c.add_argument("--seed", type=int, default=int(os.environ.get("VERIF_SEED", "0") or 0))
    c.add_argument("--n", type=int, default=None)
    c.add_argument("--workers", type=int, default=None)
    c.add_argument("--no-evidence", action="store_true")
    r = sub.add_parser("replay")
    r.add_argument("path")
    d = sub.add_parser("digests")
    d.add_argument("prop")
    d.add_argument("--seed", type=int, default=0)
    d.add_argument("--tier", default="quick")
    d.add_argument("--idxs", required=True)
    s = sub.add_parser("selftest")
    s.add_argument("--seeds", type=int, default=60)
    s.add_argument("--props", default="")
    a = ap.parse_args(argv)

    from . import runner, world, ops

    ops.install_unraisable_hook()
    try:
        if a.cmd == "check":
            return runner.run_check(a.prop.upper(), tier=a.tier, base_seed=a.seed, n=a.n, workers=a.workers, write_evidence=not a.no_evidence)
        if a.cmd == "replay":
            from . import ops

            with ops.quiet():
                return runner.replay_file(a.path)
        if a.cmd == "digests":
            from . import ops

            idxs = [int(x) for x in a.idxs.split(",") if x != ""]
            with ops.quiet():
                out = runner.digests_here(a.prop.upper(), a.seed, idxs, a.tier)
            print(json.dumps(out), file=sys.__stdout__)
            return 0
        if a.cmd == "selftest":
            from . import selftest

            props = [p.upper() for p in a.props.split(",") if p] or None
            return selftest.run(a.seeds, props)
    finally:
        world.remove_base()
    return 2


if __name__ == "__main__":
    rc = main()
    from . import runner as _r

    if _r.HARD_EXIT:
        sys.__stdout__.flush()
        sys.__stderr__.flush()
        os._exit(rc if isinstance(rc, int) else 2)
    sys.exit(rc)

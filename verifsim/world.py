"""A world is the durable state of one simulated execution: a scratch directory
(tmpfs) holding config/config.ini, inputs/, archive/, cache/ and src/.  All paths
csvpath sees are relative to the world, so twin worlds produce identical path
strings.  The world removes itself on exit."""
import csv
import hashlib
import os
import shutil
import tempfile

_counter = [0]


def base_dir():
    b = os.environ.get("VERIFSIM_BASE")
    if not b:
        root = "/dev/shm" if os.access("/dev/shm", os.W_OK) else tempfile.gettempdir()
        b = os.path.join(root, f"verifsim-{os.getpid()}")
        os.environ["VERIFSIM_BASE"] = b
    os.makedirs(os.path.join(b, "logs"), exist_ok=True)
    return b


def remove_base():
    b = os.environ.get("VERIFSIM_BASE")
    if b and os.path.basename(b).startswith("verifsim-"):
        shutil.rmtree(b, ignore_errors=True)


CONFIG_TEMPLATE = """[csvpath_files]
extensions = txt, csvpath, csvpaths
[csv_files]
extensions = txt, csv, tsv, dat, tab, psv, ssv
[errors]
csvpath = {csvpath_policy}
csvpaths = {csvpaths_policy}
[logging]
csvpath = {log_level}
csvpaths = {log_level}
log_file = {log_file}
log_files_to_keep = 1
log_file_size = 2000000
[config]
path =
[functions]
imports =
[cache]
path = cache
[results]
archive = archive
transfers = transfers
[inputs]
files = {inputs_prefix}inputs/named_files{inputs_suffix}
csvpaths = {inputs_prefix}inputs/named_paths{inputs_suffix}
on_unmatched_file_fingerprints = halt
"""


class World:
    def __init__(self, *, csvpath_policy=("collect", "print"), csvpaths_policy=("raise", "collect"), keep=False, log_level="error", inputs_prefix="", inputs_suffix=""):
        self.inputs_suffix = inputs_suffix  # "" | "/": a trailing separator on the inputs directories
        self.log_level = log_level
        self.inputs_prefix = inputs_prefix  # "" | "./" | ".//": the same directories, written less plainly in config.ini
        self.csvpath_policy = list(csvpath_policy)
        self.csvpaths_policy = list(csvpaths_policy)
        self.root = None
        self._prev = None
        self.keep = keep

    def create(self):
        """Creates the world directory without entering it."""
        b = base_dir()
        _counter[0] += 1
        self.root = os.path.join(b, f"w{os.getpid()}-{_counter[0]}")
        os.makedirs(self.root)
        os.makedirs(os.path.join(self.root, "config"))
        os.makedirs(os.path.join(self.root, "src"))
        self.write_config()
        return self

    def destroy(self):
        if not self.keep and self.root:
            shutil.rmtree(self.root, ignore_errors=True)

    def __enter__(self):
        self.create()
        self._prev = os.getcwd()
        os.chdir(self.root)
        return self

    def write_config(self, csvpath_policy=None, csvpaths_policy=None):
        if csvpath_policy is not None:
            self.csvpath_policy = list(csvpath_policy)
        if csvpaths_policy is not None:
            self.csvpaths_policy = list(csvpaths_policy)
        log_file = os.path.join(base_dir(), "logs", f"{os.getpid()}.log")
        with open(os.path.join(self.root, "config", "config.ini"), "w", encoding="utf-8") as f:
            f.write(
                CONFIG_TEMPLATE.format(
                    csvpath_policy=", ".join(self.csvpath_policy),
                    csvpaths_policy=", ".join(self.csvpaths_policy),
                    log_file=log_file,
                    log_level=self.log_level,
                    inputs_prefix=self.inputs_prefix,
                    inputs_suffix=self.inputs_suffix,
                )
            )

    def __exit__(self, *exc):
        os.chdir(self._prev)
        self.destroy()
        return False

    # ---- helpers used by harness code only (never by csvpath) ----

    def write_csv(self, rel, rows, delimiter=",", quotechar='"'):
        p = os.path.join(self.root, rel)
        os.makedirs(os.path.dirname(p), exist_ok=True)
        with open(p, "w", newline="", encoding="utf-8") as f:
            w = csv.writer(f, delimiter=delimiter, quotechar=quotechar, lineterminator="\n")
            for r in rows:
                w.writerow(r)
        return rel

    def write_bytes(self, rel, data: bytes):
        p = os.path.join(self.root, rel)
        os.makedirs(os.path.dirname(p), exist_ok=True)
        with open(p, "wb") as f:
            f.write(data)
        return rel


def sha256_file(p):
    h = hashlib.sha256()
    with open(p, "rb") as f:
        while True:
            b = f.read(65536)
            if not b:
                break
            h.update(b)
    return h.hexdigest()


def tree_hashes(top):
    """{relative path: sha256} for every file under `top` (uses scandir via
    os.walk, so the listdir seam is not involved)."""
    out = {}
    if not os.path.isdir(top):
        return out
    for r, ds, fs in os.walk(top):
        ds.sort()
        for f in sorted(fs):
            p = os.path.join(r, f)
            out[p] = sha256_file(p)
    return out


def tree_digest(tops=("archive", "inputs", "cache")):
    h = hashlib.sha256()
    for top in tops:
        for p, d in sorted(tree_hashes(top).items()):
            h.update(p.encode("utf-8", "surrogateescape"))
            h.update(d.encode())
    return h.hexdigest()

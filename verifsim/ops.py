"""Operations against the real library, shared by all property modules."""
import contextlib
import io
import json
import os
import sys

from .sim import CsvPath, CsvPaths, CSVPATH_HOME
from . import seams

SERIAL = ["collect_paths", "fast_forward_paths", "next_paths", "next_paths_collect"]
BYLINE = ["collect_by_line", "fast_forward_by_line", "next_by_line"]
METHODS = SERIAL + BYLINE
COLLECTING = {"collect_paths", "next_paths_collect", "collect_by_line"}


class _Sink(io.TextIOBase):
    """Where stdout goes during simulated runs.  `broken = True` makes it the output of a process whose stdout has
    gone away or sits on a full disk: every write raises ENOSPC (an I/O fault at the print step)."""

    broken = False
    failed_writes = 0

    def write(self, s):
        if self.broken:
            _Sink.failed_writes += 1
            raise OSError(28, "No space left on device (simulated stdout)")
        return len(s)


SINK = _Sink()
UNRAISABLE = {"resource_warnings": 0}


def install_unraisable_hook():
    """csvpath turns warnings into errors process-wide; a file object finalised by
    the garbage collector then prints 'Exception ignored ... ResourceWarning' on
    stderr.  Count those instead of printing them; everything else is passed on."""

    def hook(u):
        if isinstance(u.exc_value, ResourceWarning):
            UNRAISABLE["resource_warnings"] += 1
            return
        sys.__unraisablehook__(u)

    sys.unraisablehook = hook


@contextlib.contextmanager
def quiet():
    old = sys.stdout
    sys.stdout = SINK
    try:
        yield
    finally:
        sys.stdout = old


def new_csvpaths(delimiter=",", quotechar='"'):
    with quiet():
        return CsvPaths(delimiter=delimiter, quotechar=quotechar)


def run_iter(cs, method, group, fname="f", if_all_agree=False):
    """Returns (iterator or None, finisher).  Generator methods are returned
    unconsumed so that the simulator can step them."""
    if method == "collect_paths":
        cs.collect_paths(pathsname=group, filename=fname)
        return None
    if method == "fast_forward_paths":
        cs.fast_forward_paths(pathsname=group, filename=fname)
        return None
    if method == "next_paths":
        return cs.next_paths(pathsname=group, filename=fname)
    if method == "next_paths_collect":
        return cs.next_paths(pathsname=group, filename=fname, collect=True)
    if method == "collect_by_line":
        return ("list", cs.collect_by_line(pathsname=group, filename=fname, if_all_agree=if_all_agree))
    if method == "fast_forward_by_line":
        cs.fast_forward_by_line(pathsname=group, filename=fname, if_all_agree=if_all_agree)
        return None
    if method == "next_by_line":
        return cs.next_by_line(pathsname=group, filename=fname, if_all_agree=if_all_agree)
    raise ValueError(method)


def run_group(cs, method, group, fname="f", if_all_agree=False, on_yield=None, stop_after=None):
    """Runs one named-paths run to the end (or until the consumer stops after
    `stop_after` yields).  Returns the list of lines handed to the caller (None
    when the method returns nothing)."""
    with quiet():
        it = run_iter(cs, method, group, fname, if_all_agree)
        if it is None:
            return None
        if isinstance(it, tuple):
            return [list(x) for x in it[1]]
        out = []
        for line in it:
            out.append(list(line))
            if on_yield is not None:
                on_yield(line)
            if stop_after is not None and len(out) >= stop_after:
                it.close()
                break
        return out


def results_of(cs, group):
    return cs.results_manager.get_named_results(group)


def result_lines(result):
    """Lines collected by a managed member: parsed from its spooler."""
    ls = result.lines
    if ls is None:
        return []
    if isinstance(ls, list):
        return [list(x) for x in ls]
    return [list(x) for x in ls.next()]


def norm_errors(errors):
    out = []
    for e in errors or []:
        msg = f"{e.error}"
        out.append((e.line_count, type(e.error).__name__, msg.split("\n")[0][:200]))
    return out


def jsonable(v):
    """A JSON-able, order-independent copy of `v` (dict keys become strings: csvpath
    tracking dictionaries may mix int and str keys)."""
    if isinstance(v, dict):
        items = [(f"{k}", jsonable(x)) for k, x in v.items()]
        return {k: x for k, x in sorted(items, key=lambda kv: kv[0])}
    if isinstance(v, (list, tuple)):
        return [jsonable(x) for x in v]
    if isinstance(v, (str, int, float, bool)) or v is None:
        return v
    return f"{v}"


def jsonable_plain(v):
    return json.loads(json.dumps(v))


def path_state(cp, *, lines=None, printouts=None, errors=None):
    """Normalised result tuple of one CsvPath (a dict, JSON-able)."""
    return {
        "lines": None if lines is None else [list(x) for x in lines],
        "variables": jsonable(cp.variables),
        "printouts": list(printouts) if printouts is not None else None,
        "errors": [list(x) for x in norm_errors(errors if errors is not None else cp.errors)],
        "is_valid": cp.is_valid,
        "scan_count": cp.scan_count,
        "match_count": cp.match_count,
        "stopped": cp.stopped,
        "headers": list(cp.headers) if cp.headers is not None else None,
    }


_HARNESS_HOME = os.path.dirname(os.path.abspath(__file__))


SEAM_FUNCS = {"opener", "torn", "w", "w2", "write", "_gate", "sim_listdir", "__next__"}


def in_repo(tb_or_exc):
    """True when the exception originates in the csvpath package under test:
    walking the traceback inwards, the innermost frame that belongs to either
    the harness or csvpath is csvpath's (frames of the standard library or of
    dependencies below it were called by csvpath)."""
    tb = tb_or_exc.__traceback__ if isinstance(tb_or_exc, BaseException) else tb_or_exc
    owner = None
    while tb is not None:
        fn = os.path.abspath(tb.tb_frame.f_code.co_filename)
        if fn.startswith(CSVPATH_HOME):
            owner = "repo"
        elif fn.startswith(_HARNESS_HOME):
            # (fault seams stand in for open()/os.*/shutil.*: an error raised from inside them belongs to their caller)
            if tb.tb_frame.f_code.co_name not in SEAM_FUNCS:
                owner = "harness"
        tb = tb.tb_next
    return owner == "repo"


def exc_sig(e):
    return f"{type(e).__name__}: {str(e).splitlines()[0][:160] if str(e) else ''}"


def standalone(text, *, entry="collect", nexts=None, delimiter=",", quotechar='"', via=None):
    """Runs one csvpath text (with the file after '$') on a standalone CsvPath
    (or one created by CsvPaths `via`).  Returns (csvpath, printed lines, result)
    where result is the list of lines for collecting entries, else None."""
    from csvpath.util.printer import TestPrinter

    with quiet():
        if via is not None:
            cp = via.csvpath()
        else:
            cp = CsvPath(delimiter=delimiter, quotechar=quotechar)
        tp = TestPrinter()
        cp.add_printer(tp)
        if entry == "collect":
            res = [list(x) for x in (cp.collect(text) if nexts is None else cp.collect(text, nexts=nexts))]
        elif entry == "next":
            res = [list(x) for x in cp.next(text)]
        elif entry == "fast_forward":
            cp.fast_forward(text)
            res = None
        else:
            raise ValueError(entry)
    return cp, tp.lines, res

"""Reads an archive using only json, csv, hashlib and os - shares nothing with
csvpath.  Every function returns plain data or raises ReadError."""
import csv
import hashlib
import json
import os


class ReadError(Exception):
    pass


def read_json(p):
    try:
        with open(p, encoding="utf-8") as f:
            return json.load(f)
    except FileNotFoundError:
        raise ReadError(f"{p}: missing")
    except Exception as e:  # noqa: BLE001
        raise ReadError(f"{p}: unreadable ({type(e).__name__}: {e})")


def read_csv(p):
    with open(p, newline="", encoding="utf-8") as f:
        return [row for row in csv.reader(f)]


def read_text(p):
    with open(p, encoding="utf-8", newline="") as f:
        return f.read()


def sha256(p):
    h = hashlib.sha256()
    with open(p, "rb") as f:
        h.update(f.read())
    return h.hexdigest()


MEMBER_FILES = ["data.csv", "meta.json", "unmatched.csv", "printouts.txt", "errors.json", "vars.json"]


def list_dir(p):
    # scandir, not os.listdir: the listdir seam belongs to the system under test
    with os.scandir(p) as it:
        return sorted(e.name for e in it)


def read_member(d):
    """-> dict with whatever could be read; 'problems' lists what could not."""
    out = {"dir": d, "problems": [], "present": []}
    if not os.path.isdir(d):
        out["problems"].append(f"{d}: member directory missing")
        return out
    out["present"] = [n for n in list_dir(d) if n != "manifest.json"]
    for key, fn in (("meta", "meta.json"), ("vars", "vars.json"), ("errors", "errors.json"), ("manifest", "manifest.json")):
        try:
            out[key] = read_json(os.path.join(d, fn))
        except ReadError as e:
            out["problems"].append(str(e))
            out[key] = None
    for key, fn in (("data", "data.csv"), ("unmatched", "unmatched.csv")):
        p = os.path.join(d, fn)
        if os.path.isfile(p):
            try:
                out[key] = read_csv(p)
            except Exception as e:  # noqa: BLE001
                out["problems"].append(f"{p}: unparseable ({type(e).__name__}: {e})")
                out[key] = None
        else:
            out[key] = None
    p = os.path.join(d, "printouts.txt")
    out["printouts"] = read_text(p) if os.path.isfile(p) else None
    return out


def read_run(run_dir):
    out = {"dir": run_dir, "problems": [], "members": {}}
    try:
        out["manifest"] = read_json(os.path.join(run_dir, "manifest.json"))
    except ReadError as e:
        out["problems"].append(str(e))
        out["manifest"] = None
    if os.path.isdir(run_dir):
        for n in list_dir(run_dir):
            p = os.path.join(run_dir, n)
            if os.path.isdir(p):
                out["members"][n] = read_member(p)
    return out


def clock_leak(*docs):
    """Any ISO timestamp before the simulated epoch year means a real clock leaked."""
    for d in docs:
        if not isinstance(d, dict):
            continue
        for k in ("time", "time_completed", "time_started"):
            v = d.get(k)
            if isinstance(v, str) and len(v) >= 4 and v[:4].isdigit() and v[:4] < "2031":
                return f"{k}={v}"
    return None

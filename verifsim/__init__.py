"""verifsim - deterministic simulation with fault injection for csvpath.

Import order matters: `verifsim.seams.install()` must run before the first
`import csvpath` so that every module of the library binds the simulated
`datetime` class.  `verifsim.sim` does that and is what everything else imports.
"""

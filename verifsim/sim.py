"""Single import point: installs the seams, imports csvpath from /repo's working
tree (or from $VERIF_REPO for mutant runs), rebinds captured names and registers
the harness' external functions through csvpath's own extension seam."""
import os
import sys

from . import seams

seams.install()

_alt = os.environ.get("VERIF_REPO")
if _alt:
    sys.path.insert(0, _alt)

import csvpath  # noqa: E402
from csvpath import CsvPath, CsvPaths  # noqa: E402,F401

PATCHED = seams.patch_loaded_modules()
CSVPATH_HOME = os.path.dirname(os.path.abspath(csvpath.__file__))

from . import extfuncs  # noqa: E402

extfuncs.register()

"""Seams: every source of nondeterminism csvpath reads goes through here.

  clock      datetime.now()/utcnow()/today()  -> SimClock
  timing     time.time()/perf_counter[_ns]()/monotonic() inside csvpath modules -> SimClock (ticking with it)
  randomness uuid.uuid4()                     -> PRNG derived from the scenario seed
  dir order  os.listdir()                     -> sorted, then permuted by a PRNG
                                                 derived from the scenario's salt

Nothing here draws from the scenario-generating PRNG, and nothing here reads
a real clock.  `install()` must be called before csvpath is imported; it is
idempotent.  `reset(...)` is called at the start of every simulated run.
"""
import datetime as _dt
import os
import random
import sys
import time as _time
import types
import uuid as _uuid

REAL_DATETIME = _dt.datetime
REAL_TIME = _time
REAL_UUID4 = _uuid.uuid4
REAL_LISTDIR = os.listdir
UTC = _dt.timezone.utc

EPOCH = REAL_DATETIME(2031, 3, 14, 9, 26, 53, tzinfo=UTC)


class SimClock:
    """The only clock csvpath sees.  `t` is an aware UTC datetime."""

    t = EPOCH
    step = _dt.timedelta(0)  # added on every datetime.now() read
    reads = 0
    lo = EPOCH  # smallest / largest instant handed out since reset
    hi = EPOCH
    total_advance = _dt.timedelta(0)  # simulated time covered (forward moves) since the last reset
    cumulative = _dt.timedelta(0)  # ... summed over the resets of one scenario

    @classmethod
    def reset(cls, t=None, step_us=0):
        cls.cumulative += cls.total_advance
        cls.t = t or EPOCH
        cls.step = _dt.timedelta(microseconds=step_us)
        cls.reads = 0
        cls.lo = cls.t
        cls.hi = cls.t
        cls.total_advance = _dt.timedelta(0)

    @classmethod
    def read(cls):
        cls.reads += 1
        if cls.step:
            cls.t = cls.t + cls.step
            cls.total_advance += cls.step
        if cls.t < cls.lo:
            cls.lo = cls.t
        if cls.t > cls.hi:
            cls.hi = cls.t
        return cls.t

    @classmethod
    def peek(cls):
        return cls.t

    @classmethod
    def set(cls, t):
        if t > cls.t:
            cls.total_advance += t - cls.t
        cls.t = t
        if cls.t < cls.lo:
            cls.lo = cls.t
        if cls.t > cls.hi:
            cls.hi = cls.t

    @classmethod
    def advance(cls, **kw):
        cls.set(cls.t + _dt.timedelta(**kw))


class _Meta(type):
    # real datetimes must pass isinstance(x, datetime) inside csvpath and dateutil
    def __instancecheck__(cls, obj):
        return isinstance(obj, REAL_DATETIME)


class SimDateTime(REAL_DATETIME, metaclass=_Meta):
    @classmethod
    def now(cls, tz=None):
        t = SimClock.read()
        if tz is None:
            return t.replace(tzinfo=None)
        return t.astimezone(tz)

    @classmethod
    def utcnow(cls):
        return SimClock.read().replace(tzinfo=None)

    @classmethod
    def today(cls):
        return SimClock.read().replace(tzinfo=None)


class _TimeShim(types.ModuleType):
    """Stands in for the `time` module inside csvpath modules only."""

    def __init__(self):
        super().__init__("time")

    # (like datetime.now(), a read moves the clock on by SimClock.step when the scenario asked for a ticking clock: an
    # elapsed time measured between two reads is then non-zero)
    def time(self):
        return SimClock.read().timestamp()

    def perf_counter_ns(self):
        return int(SimClock.read().timestamp() * 1_000_000_000)

    def perf_counter(self):
        return SimClock.read().timestamp()

    def monotonic(self):
        return SimClock.read().timestamp()

    def ctime(self, secs=None):
        return "SIM-CTIME"

    def sleep(self, secs):
        SimClock.advance(seconds=secs)

    def __getattr__(self, name):
        return getattr(REAL_TIME, name)


TIME_SHIM = _TimeShim()


class _State:
    uuid_rng = random.Random(0)
    listdir_rng = None  # None => sorted order, no permutation
    listdir_calls = 0
    listdir_permuted = 0
    active = False  # listdir is only touched while a simulated op runs


STATE = _State()


def sim_uuid4():
    return _uuid.UUID(int=STATE.uuid_rng.getrandbits(128), version=4)


def sim_listdir(path="."):
    r = REAL_LISTDIR(path)
    if not STATE.active:
        return r
    r.sort()
    STATE.listdir_calls += 1
    if STATE.listdir_rng is not None and len(r) > 1:
        STATE.listdir_rng.shuffle(r)
        STATE.listdir_permuted += 1
    return r


_installed = False


def install():
    global _installed
    if _installed:
        return
    if "csvpath" in sys.modules:
        raise RuntimeError("verifsim.seams.install() must run before csvpath is imported")
    _dt.datetime = SimDateTime
    _uuid.uuid4 = sim_uuid4
    os.listdir = sim_listdir
    _installed = True


def patch_loaded_modules():
    """Rebind names that csvpath modules captured with from-imports."""
    patched = {"datetime": [], "time": [], "uuid4": []}
    for name, mod in list(sys.modules.items()):
        if mod is None or not (name == "csvpath" or name.startswith("csvpath.")):
            continue
        d = getattr(mod, "__dict__", {})
        if d.get("datetime") is REAL_DATETIME:
            mod.datetime = SimDateTime
            patched["datetime"].append(name)
        if d.get("time") is REAL_TIME:
            mod.time = TIME_SHIM
            patched["time"].append(name)
        if d.get("uuid4") is REAL_UUID4:
            mod.uuid4 = sim_uuid4
            patched["uuid4"].append(name)
    return patched


def reset(seed, *, clock=None, step_us=0, listdir_salt=None):
    """Start of a simulated run: everything derives from `seed` and the
    concrete knobs recorded in the scenario."""
    SimClock.reset(clock, step_us)
    STATE.uuid_rng = random.Random(("uuid", seed).__repr__())
    STATE.listdir_rng = None if listdir_salt is None else random.Random(("ls", listdir_salt).__repr__())
    STATE.listdir_calls = 0
    STATE.listdir_permuted = 0
    STATE.active = True


def deactivate():
    STATE.active = False


def iso(t):
    return t.strftime("%Y-%m-%dT%H:%M:%S.%f")


def parse_iso(s):
    t = REAL_DATETIME.strptime(s, "%Y-%m-%dT%H:%M:%S.%f")
    return t.replace(tzinfo=UTC)

"""Harness functions registered through csvpath's own extension seam
(`FunctionFactory.add_function`, documented "use to add a new, external
function at runtime").

  simfault()  / simfault("site")    raises RuntimeError inside _decide_match when
                                    the fault plan names (identity, line[, site]);
                                    a site containing "chain" makes it a chained
                                    exception (raise ... from cause)
  simfaultv() / simfaultv("site")   same, but raises inside _produce_value
  simprobe()  / simprobe("site")    records an evaluation event and calls the
                                    online monitor; always votes the default match

State is process-global and reset by `arm()` at the start of each simulated op.
Nothing here draws random numbers or reads a clock.
"""
from csvpath.matching.functions.function_factory import FunctionFactory
from csvpath.matching.functions.function_focus import MatchDecider, ValueProducer
from csvpath.matching.functions.args import Args
from csvpath.matching.productions.term import Term


class FaultState:
    plan = set()  # {(identity|None, line|None, site|None)}
    fired = []  # [(kind, identity, line, site)]
    events = []  # [(identity, line, site)]  from simprobe and simfault evaluations
    monitor = None  # callable(csvpath, identity, line, site) or None
    seq = 0


def arm(plan=(), monitor=None):
    FaultState.plan = {tuple(p) for p in plan}
    FaultState.fired = []
    FaultState.events = []
    FaultState.monitor = monitor
    FaultState.seq = 0


def disarm():
    FaultState.plan = set()
    FaultState.monitor = None


def _where(fn):
    cp = fn.matcher.csvpath
    site = None
    if fn.children:
        try:
            site = fn.children[0].to_value()
        except Exception:  # pragma: no cover
            site = None
    return cp, cp.identity, cp.line_monitor.physical_line_number, site


def _planned(identity, line, site):
    p = FaultState.plan
    if not p:
        return False
    for cand in (
        (identity, line, site),
        (identity, line, None),
        (None, line, site),
        (None, line, None),
        (identity, None, site),
        (identity, None, None),
    ):
        if cand in p:
            return True
    return False


class _OptLabel:
    def check_valid(self):
        self.args = Args(matchable=self)
        self.args.argset(0)
        self.args.argset(1).arg(types=[Term], actuals=[str])
        self.args.validate(self.siblings())
        super().check_valid()


class SimFault(_OptLabel, MatchDecider):
    def _produce_value(self, skip=None):
        self.value = self.matches(skip=skip)

    def _decide_match(self, skip=None):
        cp, identity, line, site = _where(self)
        FaultState.events.append((identity, line, site))
        if FaultState.monitor is not None:
            FaultState.monitor(cp, identity, line, site)
        if _planned(identity, line, site):
            FaultState.fired.append(("exc_match", identity, line, site))
            if isinstance(site, str) and "chain" in site:
                # an exception that itself has a cause (what `raise X from Y` inside a function produces)
                try:
                    int("not a number")
                except ValueError as cause:
                    raise RuntimeError(f"simfault at {identity!r} line {line} site {site!r}") from cause
            raise RuntimeError(f"simfault at {identity!r} line {line} site {site!r}")
        self.match = self.default_match()


class SimFaultV(_OptLabel, ValueProducer):
    def _produce_value(self, skip=None):
        cp, identity, line, site = _where(self)
        FaultState.events.append((identity, line, site))
        if _planned(identity, line, site):
            FaultState.fired.append(("exc_value", identity, line, site))
            raise RuntimeError(f"simfaultv at {identity!r} line {line} site {site!r}")
        self.value = 1

    def _decide_match(self, skip=None):
        self.match = self.default_match()


class SimProbe(_OptLabel, MatchDecider):
    def _produce_value(self, skip=None):
        self.value = self.matches(skip=skip)

    def _decide_match(self, skip=None):
        cp, identity, line, site = _where(self)
        FaultState.events.append((identity, line, site))
        if FaultState.monitor is not None:
            FaultState.monitor(cp, identity, line, site)
        self.match = self.default_match()


_registered = False


def register():
    global _registered
    if _registered:
        return
    FunctionFactory.add_function("simfault", SimFault(None, "simfault"))
    FunctionFactory.add_function("simfaultv", SimFaultV(None, "simfaultv"))
    FunctionFactory.add_function("simprobe", SimProbe(None, "simprobe"))
    _registered = True

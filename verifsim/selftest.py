"""Determinism self-test: the same seeds must give the same run digests
(event log + normalised world tree) by four routes - the worker pool at two
worker counts / chunkings, and fresh interpreters under two hash seeds."""
import concurrent.futures as cf
import multiprocessing as mp
import sys
import time

from . import runner, world


def pool_digests(pid, base_seed, idxs, tier, workers, chunk):
    base = world.base_dir()
    chunks = [idxs[s : s + chunk] for s in range(0, len(idxs), chunk)]
    out = {}
    ctx = mp.get_context("fork")
    with cf.ProcessPoolExecutor(max_workers=workers, mp_context=ctx, initializer=runner._worker_init, initargs=(base,)) as ex:
        for res in ex.map(runner._run_chunk, [pid] * len(chunks), [base_seed] * len(chunks), chunks, [tier] * len(chunks), timeout=1500):
            for o in res:
                out[str(o["i"])] = "HARNESS-ERROR" if o.get("harness_error") else o.get("digest")
    return out


def run(nseeds, props=None, base_seed=0):
    props = props or runner.PROPS
    bad = 0
    t0 = time.time()
    for pid in props:
        prop = runner.load_prop(pid)
        n = min(nseeds, prop.TIERS["quick"]["n"])
        if pid in ("C18", "C08", "C19"):
            n = max(8, n // 4)
        idxs = list(range(n))
        a = pool_digests(pid, base_seed, idxs, "quick", 16, 5)
        b = pool_digests(pid, base_seed, idxs, "quick", 3, 11)
        half = idxs[:: 2]
        c = runner.digests_fresh(pid, base_seed, half, "quick", hashseed="0")
        d = runner.digests_fresh(pid, base_seed, half, "quick", hashseed="12345")
        mism = [i for i in idxs if a.get(str(i)) != b.get(str(i))]
        mism += [i for i in half if not (a.get(str(i)) == c.get(str(i)) == d.get(str(i)))]
        herr = [i for i in idxs if a.get(str(i)) == "HARNESS-ERROR"]
        status = "ok" if not mism and not herr else "MISMATCH"
        if mism or herr:
            bad += 1
        print(f"[selftest] {pid}: {n} seeds x (16 workers, 3 workers) + {len(half)} seeds x 2 fresh interpreters: {status} {sorted(set(mism))[:10]} harness_errors={herr[:5]}", file=sys.__stdout__, flush=True)
    print(f"[selftest] done in {time.time() - t0:.0f}s: {'all digests agree' if not bad else str(bad) + ' properties disagree'}", file=sys.__stdout__)
    return 0 if not bad else 2

"""Secondary monitor for C04: thin pass-through wrappers around the three places
that are meant to set the verdict (Fail/FailAll._decide_match, Stopper._stop_me
for fail_and_stop, ErrorHandler._handle_if under a policy with 'fail').  They
record *that the code executed* for a given CsvPath object; the oracle
`is_valid == (no verdict event executed so far)` then holds for every program,
not only for template families.  Installed only when the attributes exist."""

EVENTS = {}  # id(csvpath) -> number of executed verdict events
ERRORS = {}  # id(csvpath) -> number of errors raised below an expression (whatever happens to them later)
_SEEN = set()
INSTALLED = {"fail": False, "stop": False, "error": False, "raised": False}


def reset():
    EVENTS.clear()
    ERRORS.clear()
    _SEEN.clear()


def errors_raised(cp):
    return ERRORS.get(id(cp), 0)


def _note_errors(expr):
    try:
        cp = expr.matcher.csvpath
        for e in expr.errors:
            if id(e) not in _SEEN:
                _SEEN.add(id(e))
                ERRORS[id(cp)] = ERRORS.get(id(cp), 0) + 1
    except Exception:  # noqa: BLE001
        pass


def count(cp):
    return EVENTS.get(id(cp), 0)


def _bump(cp):
    if cp is not None:
        EVENTS[id(cp)] = EVENTS.get(id(cp), 0) + 1


def install():
    try:
        from csvpath.matching.functions.validity.fail import Fail, FailAll

        for cls in (Fail, FailAll):
            orig = cls._decide_match
            if getattr(orig, "_verif_wrapped", False):
                continue

            def wrapped(self, skip=None, _orig=orig):
                _bump(self.matcher.csvpath)
                return _orig(self, skip=skip)

            wrapped._verif_wrapped = True
            cls._decide_match = wrapped
        INSTALLED["fail"] = True
    except Exception:  # noqa: BLE001
        pass
    try:
        from csvpath.matching.functions.lines.stop import Stopper

        orig = Stopper._stop_me
        if not getattr(orig, "_verif_wrapped", False):

            def wrapped_stop(self, skip=None, _orig=orig):
                cp = self.matcher.csvpath
                before = cp.stopped
                r = _orig(self, skip=skip)
                if self.name == "fail_and_stop" and cp.stopped and not before:
                    _bump(cp)
                return r

            wrapped_stop._verif_wrapped = True
            Stopper._stop_me = wrapped_stop
        INSTALLED["stop"] = True
    except Exception:  # noqa: BLE001
        pass
    try:
        from csvpath.util.error import ErrorHandler

        orig = ErrorHandler._handle_if
        if not getattr(orig, "_verif_wrapped", False):

            def wrapped_handle(self, *, policy, error, _orig=orig):
                try:
                    if self._csvpath is not None and self._ecm.do_i_fail() is True:
                        _bump(self._csvpath)
                except Exception:  # noqa: BLE001
                    pass
                return _orig(self, policy=policy, error=error)

            wrapped_handle._verif_wrapped = True
            ErrorHandler._handle_if = wrapped_handle
        INSTALLED["error"] = True
    except Exception:  # noqa: BLE001
        pass
    try:
        from csvpath.matching.productions.expression import Expression

        orig_m = Expression.matches
        if not getattr(orig_m, "_verif_wrapped", False):

            def wrapped_matches(self, *, skip=None, _orig=orig_m):
                r = _orig(self, skip=skip)
                if self.errors:
                    _note_errors(self)
                return r

            wrapped_matches._verif_wrapped = True
            Expression.matches = wrapped_matches
        orig_h = Expression.handle_error
        if not getattr(orig_h, "_verif_wrapped", False):

            def wrapped_he(self, error, _orig=orig_h):
                r = _orig(self, error)
                _note_errors(self)
                return r

            wrapped_he._verif_wrapped = True
            Expression.handle_error = wrapped_he
        INSTALLED["raised"] = True
    except Exception:  # noqa: BLE001
        pass
    return all(INSTALLED.values())

"""python -m verifsim.fresh_job <spec.json>: runs one C19 job as the first and only
job of a real fresh interpreter (its own PYTHONHASHSEED) and prints the result
tuple as JSON on the last line of stdout."""
import json
import sys


def main():
    with open(sys.argv[1], encoding="utf-8") as f:
        spec = json.load(f)
    from . import ops
    from .props import c19

    ops.install_unraisable_hook()
    with ops.quiet():
        res = c19._history(spec["root"], spec["seed"], [spec["job"]], spec["dialects"])
    print(json.dumps(res[0], default=str), file=sys.__stdout__)


if __name__ == "__main__":
    main()

"""Generators for data files and csvpath programs.

Programs are kept structured ({"id","scan","comps",...}) and rendered to text
only when handed to csvpath, so the shrinker can drop components, members and
rows.  Everything is drawn from the rng passed in; nothing else."""
import copy
import json
import os

with open(os.path.join(os.path.dirname(os.path.abspath(__file__)), "zoo.json"), encoding="utf-8") as _f:
    _z = json.load(_f)
ZOO = _z["zoo"]
ZOO_REWRITE = _z["rewrite"]  # line-rewriting / projecting components (append, replace, collect)
# components whose output mentions the physical path of the file (differs between a standalone run and a named-file run)
ZOO_PATH_DEPENDENT = [c for c in ZOO if "run_table" in c]
ZOO_SAFE = [c for c in ZOO if c not in ZOO_PATH_DEPENDENT]

WORDS = ["a", "b", "c", "FAIL"]
NASTY = ['x,y', 'say "hi"', "two\nlines", "ünï", "semi;colon", "pipe|d", " lead", "'single'", "q\"mid"]


def gen_rows(rng, *, min_rec=1, max_rec=9, ncol=None, nasty=False, blank_p=0.15, ragged_p=0.1, trailing_blank_p=0.2, hdr=None, extra_cells=None, ws_lines=False):
    """rows[0] is the header record; column 0 is a unique row id."""
    n = rng.randint(min_rec, max_rec)
    ncol = ncol or rng.randint(2, 4)
    hdr = hdr or (["id"] + [f"h{i}" for i in range(1, ncol)])
    ncol = len(hdr)
    rows = [list(hdr)]
    for i in range(1, n + 1):
        if rng.random() < blank_p:
            # a blank record; now and then a physical line holding nothing but blanks (one cell of whitespace)
            rows.append(["   "] if (ws_lines and rng.random() < 0.3) else [])
            continue
        r = [f"r{i}"]
        for c in range(1, ncol):
            k = rng.random()
            if extra_cells and rng.random() < 0.12:
                r.append(rng.choice(extra_cells))
            elif k < 0.4:
                r.append(str(rng.randint(0, 12)))
            elif k < 0.7:
                r.append(rng.choice(WORDS))
            elif k < 0.8:
                r.append("")
            elif nasty and k < 0.95:
                r.append(rng.choice(NASTY))
            else:
                r.append(rng.choice(["x y", "ü", "0.5", "107"]))
        if rng.random() < ragged_p and len(r) > 2:
            r = r[:-1]
        rows.append(r)
    if rng.random() < trailing_blank_p:
        rows.append([])
    return rows


def cond(rng, hdr, nlines):
    k = rng.random()
    h = rng.choice(hdr[1:])
    if k < 0.3:
        return f"line_number() == {rng.randint(0, nlines)}"
    if k < 0.5:
        return f'#{h} == "{rng.choice(["a", "b", "FAIL", "3"])}"'
    if k < 0.6:
        return f'in(#{h}, "a|b|3")'
    if k < 0.7:
        return f'not(#{h} == "a")'
    if k < 0.8:
        return f"empty(#{h})"
    if k < 0.9:
        return f"gt(count_lines(), {rng.randint(1, 5)})"
    return "yes()"


def comp(rng, hdr, nlines, i, weights=None):
    k = rng.random()
    h = rng.choice(hdr[1:])
    if k < 0.12:
        return f"@v{i} = #{h}"
    if k < 0.2:
        return f'@t{i}.{rng.choice(["k", "j"])} = line_number()'
    if k < 0.3:
        return f'push("s{i}", #{h})'
    if k < 0.36:
        return f'push("ln{i}", line_number())'
    if k < 0.42:
        return f"tally(#{h})"
    if k < 0.48:
        return f"@c{i} = count()"
    if k < 0.54:
        return f'print("p{i} $.csvpath.line_number $.headers.{h}")'
    if k < 0.60:
        return f"{cond(rng, hdr, nlines)} -> stop()"
    if k < 0.66:
        return f"{cond(rng, hdr, nlines)} -> skip()"
    if k < 0.72:
        return f"{cond(rng, hdr, nlines)} -> advance({rng.randint(1, 3)})"
    if k < 0.78:
        return f"{cond(rng, hdr, nlines)} -> fail()"
    if k < 0.82:
        return f"last() -> @last{i} = count_lines()"
    if k < 0.86:
        return f"@a{i} = add(#{h}, 1)"
    if k < 0.90:
        return f'{cond(rng, hdr, nlines)} -> @w{i} = concat(#{h}, "z")'
    if k < 0.94:
        return f"@o{i}.onmatch = count_scans()"
    return cond(rng, hdr, nlines)


def scan(rng, n):
    k = rng.random()
    if k < 0.6:
        return "*"
    if k < 0.75:
        return f"{rng.randint(0, n)}*"
    if k < 0.9:
        a = rng.randint(0, n)
        b = rng.randint(a, n + 1)
        return f"{a}-{b}"
    a = rng.randint(1, max(1, n))
    return f"{a}+{a + 2}"


def zoo_comp(rng, hdr, i, pool=None):
    """A component from the verified function zoo, bound to this file's columns."""
    c = rng.choice(pool or ZOO_SAFE)
    idx = list(range(1, len(hdr)))
    h = rng.choice(idx)
    g = rng.choice(idx)
    return c.replace("{i}", str(i)).replace("{h}", str(h)).replace("{g}", str(g))


def gen_member(rng, hdr, nlines, ident, *, max_comps=5, modes=None, zoo_p=0.0, zoo_pool=None, zoo_n=(1, 3)):
    comps = [comp(rng, hdr, nlines, i) for i in range(rng.randint(1, max_comps))]
    if zoo_p and rng.random() < zoo_p:
        for z in range(rng.randint(*zoo_n)):
            comps.insert(rng.randint(0, len(comps)), zoo_comp(rng, hdr, 20 + z, zoo_pool))
    m = {"id": ident, "scan": scan(rng, nlines), "comps": comps}
    if modes:
        m["modes"] = dict(modes)
    return m


def render(m, file=""):
    """csvpath text of a member.  `file` is put after '$' for standalone use."""
    head = ""
    fields = []
    if m.get("id") is not None:
        fields.append(f"{m.get('idkey', 'id')}:{m['id']}")
    for k, v in (m.get("modes") or {}).items():
        fields.append(f"{k}:{v}")
    if m.get("note"):
        fields.append(m["note"])
    if fields:
        head = "~" + " ".join(fields) + "~ "
    sep = m.get("sep", "  ")
    return f"{head}${file}[{m['scan']}][ " + sep.join(m["comps"]) + " ]"


def member_reductions(m):
    """Smaller variants of one member."""
    if len(m["comps"]) > 1:
        for j in range(len(m["comps"])):
            c = copy.deepcopy(m)
            del c["comps"][j]
            yield c
    if m["scan"] != "*":
        c = copy.deepcopy(m)
        c["scan"] = "*"
        yield c


def rows_reductions(rows, keep_header=True):
    start = 1 if keep_header else 0
    for j in range(len(rows) - 1, start - 1, -1):
        if len(rows) - 1 >= 1 + start:
            yield rows[:j] + rows[j + 1 :]

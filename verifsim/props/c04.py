"""C04 - the validity verdict is False exactly when the csvpath failed the file.

The verdict is a bit with a lifecycle.  The simulator injects the events that
may set it (fail()/fail_and_stop() firing on a chosen line, an error handled
under a policy with / without 'fail', with per-member validation-mode
overrides) together with decoys that must NOT set it (right side of '->' with a
false left, components after stop()/skip() on the same line, fail.onmatch() on a
rejected line), and watches the bit
  (a) online, at every simprobe() callback and every generator yield,
  (b) per line, through pushed valid()/failed() values,
  (c) at the end: CsvPath, Result, ResultsManager.is_valid, run manifest
      all_valid and each member manifest - both manifests parsed from disk.
A second stratum runs arbitrary generated programs under the secondary monitor
(verdict == no verdict-setting code executed)."""
import json
import os

from .. import seams, ops, extfuncs, gen, verdictmon, world as W, diskreader as D
from .common import Out, with_, drop_each, REAL_ALL, STUB_ALL

ID = "C04"
TIERS = {"quick": {"n": 6000, "chunk": 100}, "thorough": {"n": 200000, "chunk": 250, "wall_cap": 3300}}
RULE = (
    "stratum A (3 of 4 scenarios): 1-4 members drawn from 17 template families (fail on line K, fail_and_stop on a planted cell, fail.onmatch, error handled with/without 'fail', validation-mode fail/no-fail, and decoys: "
    "no() -> fail(), after stop(), after skip(), false left of '->', fail.onmatch on a rejected line) over a generated file, run standalone and by one of 7 run forms under a policy with or without 'fail'; "
    "stratum B: arbitrary generated programs under the secondary monitor. Non-trivial = some member's verdict event fired or a decoy was reached; distinct = (families, run form, policy has fail, event position classes)."
)
ASSUMPTIONS = [
    "fail_all() is not generated (the statement does not say whose verdict it changes in a serial run)",
    "whether an arbitrary program *should* reach its fail() is C01/C13 territory: stratum A uses families whose events are unambiguous by construction, stratum B only relates the verdict to verdict-setting code that executed",
    "in members that use onmatch the look-ahead legitimately evaluates other components first, so per-line pushed values are asserted from the next line on",
    "stratum B's monitor wraps Fail._decide_match, Stopper._stop_me and ErrorHandler._handle_if; if a refactoring removes them the stratum reports itself as not installed instead of alarming",
]
REAL = REAL_ALL
STUB = STUB_ALL + ["stdout during stratum-P runs: every write raises ENOSPC (I/O fault at the policy's print step)", "pass-through wrappers recording that Fail._decide_match / Stopper._stop_me / ErrorHandler._handle_if executed (secondary monitor)"]

FAMILIES = ["plain", "no", "fas", "onmatch", "after_stop", "after_skip", "when_false", "error", "error_vm_fail", "error_vm_nofail", "onmatch_rejected", "fail_then_error", "error_skip_same_line", "fas_onmatch", "plain_nocontrib", "fas_nocontrib", "abort_outside", "error_lhs_fail", "imported_plain", "fail_all_stop_all", "nested_fas_and", "fail_all_first"]
PRE = 'push("bl", line_number()) push("b", valid()) push("bf", failed())'
POST = 'push("al", line_number()) push("a", valid()) push("af", failed()) simprobe("p")'


def family_body(fam, K):
    if fam == "plain":
        return f"line_number() == {K} -> fail()"
    if fam == "no":
        return "no() -> fail()"
    if fam == "fas":
        return '#c == "FAILHERE" -> fail_and_stop()'
    if fam == "onmatch":
        return '#c == "FAILHERE" fail.onmatch()'
    if fam == "after_stop":
        return f"line_number() == {K} -> stop() line_number() == {K} -> fail()"
    if fam == "after_skip":
        return f"line_number() == {K} -> skip() line_number() == {K} -> fail()"
    if fam == "when_false":
        return '#c == "NEVER" -> fail()'
    if fam in ("error", "error_vm_fail", "error_vm_nofail"):
        return 'simfault("s")'
    if fam == "imported_plain":
        # the rule lives in another named-paths group and is pulled in with import(): every importing member gets its own
        # copy of it (K is the same for all importers of a scenario: see lib_text)
        return 'import("lib")'
    if fam == "nested_fas_and":
        # a stopper nested as an ARGUMENT of and(): and()'s first argument is never true, fail_and_stop() is never due
        return 'and(#c == "NEVER", fail_and_stop())'
    if fam == "fail_all_first":
        # next_paths(): the first member fails the file for everyone on line K; the members after it start out failed
        return f"line_number() == {K} -> fail_all()"
    if fam == "fail_all_stop_all":
        # "fail the file for everyone and end the run" on one line (breadth-first runs only)
        return f"line_number() == {K} -> fail_all() line_number() == {K} -> stop_all()"
    if fam == "error_lhs_fail":
        # the left-hand side of a when/do errors on line K (and is false everywhere else): the fail() on the right is never due
        return 'gt(simfaultv("s"), 100) -> fail()'
    if fam == "onmatch_rejected":
        return '#c == "NOPE" fail.onmatch()'
    if fam == "fas_onmatch":
        return '#c == "FAILHERE" fail_and_stop.onmatch()'
    if fam == "plain_nocontrib":
        return f"line_number() == {K} -> fail.nocontrib()"
    if fam == "fas_nocontrib":
        return '#c == "FAILHERE" -> fail_and_stop.nocontrib()'
    if fam == "abort_outside":
        # a failure raised outside every match component: collect() names a header that does not exist, so narrowing
        # the first matched line raises InputException out of the run loop (handled by the policy, not by an expression)
        return 'collect("nosuchheader")'
    if fam == "error_skip_same_line":
        # an error and, later on the same line, a skip(): the error must still be handled
        return f'simfault("s") line_number() == {K} -> skip()'
    if fam == "fail_then_error":
        # a fail() event and, on a later line, a handled error: the verdict must never come back
        return f'line_number() == {K} -> fail() simfault("s")'
    raise ValueError(fam)


def member_text(m, j, file="", dup=False):
    head = "id:dup" if dup else f"id:m{j}"
    if m["fam"] == "error_vm_fail":
        head += " validation-mode:fail"
    elif m["fam"] == "error_vm_nofail":
        head += " validation-mode:no-fail"
    if m.get("explain"):
        head += " explain-mode:explain"
    return f"~{head}~ ${file}[{m.get('scan', '*')}][ {PRE} {family_body(m['fam'], m['K'])} {POST} ]"


def generate_print_fault(rng):
    """Stratum P: an error is handled while stdout is broken (every write raises ENOSPC): the print step of the
    policy fails.  Whatever becomes of the run, the verdict must be what the policy's 'fail' flag says."""
    nrec = rng.randint(3, 7)
    return {
        "stratum": "P",
        "seed": rng.getrandbits(32),
        "nrec": nrec,
        "K": rng.randint(0, nrec - 1),
        "policy": rng.choice([["collect", "print", "fail"], ["print", "fail"], ["collect", "print"], ["print"], ["collect", "print", "fail", "stop"], ["print", "stop"]]),
        "method": rng.choice(["standalone", "standalone"] + ops.METHODS),
        "vm": rng.choice([None, None, "fail", "no-fail"]),
    }


def generate(rng, i, tier):
    if i % 40 == 17:
        return generate_print_fault(rng)
    if i % 4 == 3:
        rows = gen.gen_rows(rng)
        k = rng.randint(1, 3)
        return {
            "stratum": "B",
            "seed": rng.getrandbits(32),
            "rows": rows,
            "members": [gen.gen_member(rng, rows[0], len(rows), f"m{j}") for j in range(k)],
            "method": rng.choice(["standalone"] + ops.METHODS),
            "policy": rng.choice([["collect"], ["collect", "fail"], ["collect", "fail", "stop"], ["collect", "print"], ["fail"]]),
        }
    nrec = rng.randint(2, 9)
    blanks = sorted(l for l in range(1, nrec) if rng.random() < 0.15)
    planted = sorted(l for l in range(1, nrec) if l not in blanks and rng.random() < 0.3)
    k = rng.randint(1, 4)
    members = [{"fam": rng.choice(FAMILIES), "K": rng.randint(0, nrec), "K2": rng.randint(0, nrec)} for _ in range(k)]
    for m in members:
        if rng.random() < 0.15:
            # explain-mode only adds a description of each match to the log: the verdict must not depend on it
            m["explain"] = True
    for m in members:
        if rng.random() < 0.08:
            # a member whose scan selects no line of the file at all: it runs, evaluates nothing and stays valid
            m["scan"] = f"{nrec + rng.randint(0, 3)}*"
    dup_ids = k >= 2 and rng.random() < 0.08
    if dup_ids:
        # two or more members written with the SAME identity (legal: nothing forbids it); families without injected errors
        members = [{"fam": rng.choice(["plain", "no", "fas", "when_false", "after_stop", "after_skip", "plain"]), "K": rng.randint(0, nrec), "K2": 0} for _ in range(k)]
    method = rng.choice(["standalone"] + ops.METHODS * 2)
    libK = rng.randint(0, nrec)
    seen_fasa = False
    for m in members:
        if m["fam"] == "imported_plain":
            if method == "standalone":
                m["fam"] = "plain"
            else:
                m["K"] = libK
        if m["fam"] == "fail_all_stop_all":
            if method not in ops.BYLINE or seen_fasa:
                m["fam"] = "plain"
            else:
                seen_fasa = True
        if m["fam"] == "fail_all_first":
            if method not in ("next_paths", "next_paths_collect") or seen_fasa:
                m["fam"] = "plain"
            else:
                seen_fasa = True
    if seen_fasa:
        # siblings of the signalling member: families that never stop, skip or raise (what a stopped member makes of a
        # sibling's fail_all() is not this stratum's business)
        for m in members:
            if m["fam"] not in ("fail_all_stop_all", "fail_all_first", "plain", "no", "when_false", "plain_nocontrib", "imported_plain", "nested_fas_and"):
                m["fam"] = "plain"
            m.pop("scan", None)
        # the signalling member goes first: siblings ordered BEFORE it have already been visited on that line and are
        # stopped before the signal is applied to them (they stay valid in the unchanged library; not asserted here)
        members.sort(key=lambda m: m["fam"] not in ("fail_all_stop_all", "fail_all_first"))
    if method not in ops.SERIAL:
        # a failure outside every component is only handled member by member in a serial CsvPaths run (a standalone CsvPath
        # hands it to the caller; a breadth-first run drops the rest of that line for the other members)
        for m in members:
            if m["fam"] == "abort_outside":
                m["fam"] = "no"
    return {
        "stratum": "A",
        "dup_ids": dup_ids,
        "seed": rng.getrandbits(32),
        "nrec": nrec,
        "blanks": blanks,
        "planted": planted,
        "members": members,
        "method": method,
        "policy": rng.choice([["collect"], ["collect", "fail"], ["fail"], ["collect", "print"], ["collect", "fail", "print", "quiet"], ["collect", "stop"], ["collect", "fail", "stop"]]),
        # an earlier run of ANOTHER group on the same instance in which a member executed a cross-path signal:
        # nothing of it may leak into the verdicts of the run under test
        "prelude": {"method": rng.choice(ops.METHODS), "signal": rng.choice(["fail_all()", "fail_all()", "stop_all()", "skip_all()", "advance_all(2)"]),
                    # the instance may have been created (and the earlier run made) while config.ini held ANOTHER error policy
                    "policy_then": rng.choice([None, None, ["collect"], ["collect", "fail"], ["collect", "fail", "stop"], ["print"]])} if rng.random() < 0.2 else None,
    }


def reductions(sc):
    if sc["stratum"] == "P":
        if sc["method"] != "standalone":
            yield with_(sc, method="standalone")
        if sc.get("vm"):
            yield with_(sc, vm=None)
        return
    for cand in drop_each(sc["members"], 2 if sc.get("dup_ids") else 1):
        yield with_(sc, members=cand)
    if sc["stratum"] == "B":
        for rows in gen.rows_reductions(sc["rows"]):
            yield with_(sc, rows=rows)
        for j, m in enumerate(sc["members"]):
            for mm in gen.member_reductions(m):
                c = with_(sc)
                c["members"][j] = mm
                yield c
    else:
        if sc["blanks"]:
            yield with_(sc, blanks=[])
        for l in sc["planted"]:
            yield with_(sc, planted=[x for x in sc["planted"] if x != l])
    if sc.get("prelude"):
        yield with_(sc, prelude=None)
    if sc["method"] not in ("standalone", "collect_paths") and not any(m.get("fam") in ("abort_outside", "fail_all_stop_all", "fail_all_first") for m in sc["members"]):
        yield with_(sc, method="collect_paths")
    if sc["method"] in ops.SERIAL and sc["method"] != "collect_paths" and not any(m.get("fam") in ("imported_plain", "fail_all_first") for m in sc["members"]):
        yield with_(sc, method="collect_paths")


def rows_a(sc):
    rows = [["id", "c"]]
    for l in range(1, sc["nrec"]):
        if l in sc["blanks"]:
            rows.append([])
        else:
            rows.append([f"r{l}", "FAILHERE" if l in sc["planted"] else "ok"])
    return rows


def first_event(sc, m, lines):
    """(line of the first verdict event or None, visible to a later component of
    that same line?, last line evaluated by the member)"""
    fam, K = m["fam"], m["K"]
    pol_fail = "fail" in sc["policy"]
    pol_stop = "stop" in sc["policy"]
    if fam in ("plain", "imported_plain"):
        return (K if K in lines else None), True, None
    if fam == "fail_all_stop_all":
        return (K if K in lines else None), True, (K if K in lines else None)
    if fam == "fail_all_first":
        return (K if K in lines else None), True, None
    if fam == "nested_fas_and":
        return None, True, None
    if fam in ("fas", "onmatch", "fas_onmatch", "fas_nocontrib"):
        p = [l for l in sc["planted"] if l in lines]
        return (p[0] if p else None), True, (p[0] if p and fam != "onmatch" else None)
    if fam == "plain_nocontrib":
        return (K if K in lines else None), True, None
    if fam == "abort_outside":
        if sc["method"] not in ops.SERIAL or not lines:
            return None, True, None
        # the first scanned line matches, is narrowed, raises; the error is handled when the run loop unwinds
        return (lines[0] if pol_fail else None), False, lines[0]
    if fam == "after_stop":
        return None, True, (K if K in lines else None)
    if fam in ("error", "error_vm_fail", "error_vm_nofail", "error_lhs_fail"):
        eff = pol_fail if fam in ("error", "error_lhs_fail") else (fam == "error_vm_fail")
        hit = K in lines
        return (K if (hit and eff) else None), False, (K if (hit and pol_stop) else None)
    if fam == "error_skip_same_line":
        hit = K in lines
        return (K if (hit and pol_fail) else None), False, (K if (hit and pol_stop) else None)
    if fam == "fail_then_error":
        K2 = m.get("K2", K)
        cut = K2 if (K2 in lines and pol_stop) else None
        reach = [l for l in lines if cut is None or l <= cut]
        f1 = K if K in reach else None
        f2 = K2 if (K2 in reach and pol_fail) else None
        if f1 is not None and (f2 is None or f1 <= f2):
            return f1, True, cut
        if f2 is not None:
            return f2, False, cut
        return None, True, cut
    return None, True, None


def execute(sc):
    out = Out()
    seams.reset(sc["seed"])
    if sc["stratum"] == "B":
        return _execute_b(sc, out)
    if sc["stratum"] == "P":
        return _execute_p(sc, out)
    lines = [l for l in range(sc["nrec"]) if l not in sc["blanks"]]
    members = sc["members"]
    k = len(members)
    exp = [first_event(sc, m, lines if m.get("scan", "*") == "*" else []) for m in members]
    sig = next((m["K"] for m in members if m["fam"] == "fail_all_stop_all" and m["K"] in lines), None)
    sig1 = next((m["K"] for m in members if m["fam"] == "fail_all_first" and m["K"] in lines), None)
    if sig1 is not None:
        # next_paths(): every member created after the signalling (first) one is failed before it reads a line
        exp = [exp[0]] + [(-1, True, last) for (F, sl, last) in exp[1:]]
    if sig is not None:
        # fail_all() + stop_all() on line `sig` of a breadth-first run: every member is failed and stopped there
        exp = [((min(F, sig) if F is not None else sig), (sl if (F is not None and F < sig) else True), sig) for (F, sl, last) in exp]
    plan = [(f"m{j}", m["K"], "s") for j, m in enumerate(members) if m["fam"].startswith("error")]
    plan += [(f"m{j}", m.get("K2", m["K"]), "s") for j, m in enumerate(members) if m["fam"] == "fail_then_error"]
    plan += [(f"m{j}", m["K"], "s") for j, m in enumerate(members) if m["fam"] == "error_skip_same_line"]
    online = {"bad": None, "seen_false": {}, "checks": 0}

    def monitor(cp, identity, line, site):
        # (a) online: the bit as of this probe, and never False -> True
        if site != "p" or not identity.startswith("m") or not identity[1:].isdigit():
            return
        j = int(identity[1:])
        F, same_line, _ = exp[j]
        if F is not None and line == F and ("onmatch" in members[j]["fam"] or members[j]["fam"] == "abort_outside"):
            return  # onmatch look-ahead: order of evaluation on the event line is not fixed
        if sig is not None and line == sig:
            return  # what a sibling sees on the very line of a fail_all() depends on its position in the group
        want = not (F is not None and (line > F or (line == F and same_line)))
        online["checks"] += 1
        if cp.is_valid != want and online["bad"] is None:
            online["bad"] = (identity, line, cp.is_valid, want)
        if not cp.is_valid:
            online["seen_false"][identity] = True
        elif online["seen_false"].get(identity) and online["bad"] is None:
            online["bad"] = (identity, line, "reset to True", want)
        # a caller may ask the manager for the group verdict at any moment of the run
        if cp.csvpaths is not None and online.get("mgr_bad") is None:
            try:
                rm = cp.csvpaths.results_manager
                got_mgr = rm.is_valid("g")
                want_mgr = all(r.is_valid for r in rm.get_named_results("g"))
                online["mgr_polls"] = online.get("mgr_polls", 0) + 1
                if got_mgr != want_mgr:
                    online["mgr_bad"] = (identity, line, got_mgr, want_mgr)
            except Exception:  # noqa: BLE001
                pass

    with W.World(csvpath_policy=sc["policy"]) as w:
        w.write_csv("src/f.csv", rows_a(sc))
        extfuncs.arm(plan=plan, monitor=monitor)
        meth = sc["method"]
        got = []
        mgr_valid = None
        disk = None
        if meth == "standalone":
            for j, m in enumerate(members):
                cp, printed, res = ops.standalone(member_text(m, j, "src/f.csv", dup=bool(sc.get("dup_ids"))), entry="collect")
                out.runs += 1
                got.append({"cp": cp, "result_valid": None})
        else:
            if any(m["fam"] == "imported_plain" for m in members):
                libk = next(m["K"] for m in members if m["fam"] == "imported_plain")
                lib_needed = f"$[*][ line_number() == {libk} -> fail() ]"
            else:
                lib_needed = None
            pre = sc.get("prelude")
            if pre and pre.get("policy_then"):
                w.write_config(csvpath_policy=pre["policy_then"])
            cs = ops.new_csvpaths()
            with ops.quiet():
                cs.file_manager.add_named_file(name="f", path="src/f.csv")
                cs.paths_manager.add_named_paths(name="g", paths=[member_text(m, j, dup=bool(sc.get("dup_ids"))) for j, m in enumerate(members)])
                if lib_needed:
                    cs.paths_manager.add_named_paths(name="lib", paths=[lib_needed])
            if pre:
                with ops.quiet():
                    cs.paths_manager.add_named_paths(name="p", paths=[f"~id:p0~ $[*][ line_number() == 1 -> {pre['signal']} ]", "~id:p1~ $[*][ yes() ]"])
                extfuncs.arm()
                ops.run_group(cs, pre["method"], "p")
                out.runs += 1
                out.fault("instance_reuse")
                out.probe("run after an earlier run that used a cross-path signal on the same instance")
                if pre.get("policy_then"):
                    # config.ini is edited between the two runs: the run under test is made under sc["policy"]
                    w.write_config(csvpath_policy=sc["policy"])
                    out.fault("config_edit")
                    out.probe("error policy in config.ini changed between two runs on one instance")
                extfuncs.arm(plan=plan, monitor=monitor)
            seen = {"n": 0}

            def on_yield(line):
                seen["n"] += 1
                for ri, r in enumerate(ops.results_of(cs, "g")):
                    ident = f"#{ri}"  # by position: members may share an identity
                    if not r.csvpath.is_valid:
                        online["seen_false"][ident] = True
                    elif online["seen_false"].get(ident) and online["bad"] is None:
                        online["bad"] = (ident, "yield", "reset to True", None)

            ops.run_group(cs, meth, "g", on_yield=on_yield)
            out.runs += 1
            rs = ops.results_of(cs, "g")
            for r in rs:
                got.append({"cp": r.csvpath, "result_valid": r.is_valid, "dir": r.instance_dir})
            mgr_valid = cs.results_manager.is_valid("g")
            disk = D.read_run(rs[0].run_dir)
        for kind_, ident, l, site in extfuncs.FaultState.fired:
            out.fault("error_event")
        where = f"{meth} policy {sc['policy']} planted {sc['planted']} blanks {sc['blanks']}"
        if online["bad"] is not None:
            ident, line, gotv, want = online["bad"]
            mi = int(ident[1:]) if ident[1:].isdigit() and int(ident[1:]) < len(members) else 0
            out.v("online_verdict", f"{where}: member {ident} {member_text(members[mi], mi)!r}: at line {line} is_valid was {gotv}, expected {want}", family=members[mi]["fam"])
        if online.get("mgr_bad") is not None:
            ident, line, gotv, want = online["mgr_bad"]
            out.v("manager_is_valid_midrun", f"{where}: polled while member {ident} was on line {line}: results_manager.is_valid('g')={gotv} but the conjunction of the members' verdicts at that moment is {want}")
        wants = []
        fired = False
        for j, m in enumerate(members):
            if j >= len(got):
                out.v("member_missing", f"{where}: member m{j} has no result", family=m["fam"])
                wants.append(True)
                continue
            F, same_line, last = exp[j]
            want = F is None
            wants.append(want)
            fired = fired or not want or m["fam"] in ("no", "after_stop", "after_skip", "when_false", "onmatch_rejected")
            cp = got[j]["cp"]
            mw = f"{where}: member m{j} {member_text(m, j)!r}"
            if not want:
                out.fault("fail_event")
            if cp.is_valid != want:
                out.v("final_verdict", f"{mw}: is_valid={cp.is_valid}, expected {want} (first verdict event: line {F})", family=m["fam"], spurious=want)
            if got[j]["result_valid"] is not None and got[j]["result_valid"] != want:
                out.v("result_verdict", f"{mw}: Result.is_valid={got[j]['result_valid']}, expected {want}", family=m["fam"])
            v = cp.variables
            for arr_name, ln_name, negate in (("b", "bl", False), ("bf", "bl", True), ("a", "al", False), ("af", "al", True)):
                arr = list(v.get(arr_name) or [])
                lns = list(v.get(ln_name) or [])
                vals = [(not x) if negate else x for x in arr]
                seen_false = False
                for x in vals:
                    if x is False:
                        seen_false = True
                    elif seen_false:
                        out.v("verdict_reset", f"{mw}: values of {arr_name} over the run {arr} go back to valid after a failure", family=m["fam"])
                        break
                if len(arr) != len(lns):
                    continue
                uses_onmatch = "onmatch" in m["fam"] or m["fam"] == "abort_outside" or (sig is not None and F == sig)
                for l, x in zip(lns, vals):
                    before_event = arr_name in ("b", "bf")
                    if F is None:
                        wantx = True
                    elif l < F:
                        wantx = True
                    elif l == F:
                        if uses_onmatch:
                            continue
                        wantx = True if before_event else (not same_line)
                    else:
                        wantx = False
                    if x is not wantx:
                        out.v(
                            "per_line_verdict",
                            f"{mw}: {'failed()' if negate else 'valid()'} captured {'before' if before_event else 'after'} the event component on line {l} said {'valid' if x else 'failed'}, expected {'valid' if wantx else 'failed'} (first event line {F}); {arr_name}={arr} {ln_name}={lns}",
                            family=m["fam"],
                        )
                        break
        if meth != "standalone":
            conj = all(wants)
            if mgr_valid != conj:
                out.v("manager_is_valid", f"{where}: results_manager.is_valid={mgr_valid}, conjunction of members {wants} is {conj}")
            man = disk["manifest"] if disk else None
            if man is None:
                out.v("run_manifest_unreadable", f"{where}: {disk['problems'] if disk else 'no run'}")
            elif man.get("all_valid") != conj:
                out.v("all_valid", f"{where}: run manifest all_valid={man.get('all_valid')}, conjunction of members {wants} is {conj}")
            for j, m in enumerate(members):
                if sc.get("dup_ids"):
                    break  # members that share an identity share a directory: only the aggregates are asserted
                md = (disk["members"] if disk else {}).get(f"m{j}")
                mm = md.get("manifest") if md else None
                if mm is None:
                    out.v("member_manifest_unreadable", f"{where}: member m{j}: {md['problems'] if md else 'no directory'}")
                elif mm.get("valid") != wants[j]:
                    out.v("member_manifest_valid", f"{where}: member m{j} ({m['fam']}) manifest valid={mm.get('valid')}, expected {wants[j]}", family=m["fam"])
        pos = []
        for j, m in enumerate(members):
            F = exp[j][0]
            if F is not None:
                pos.append("first" if F == lines[0] else "last" if F == lines[-1] else "mid")
        out.sig = [sorted(m["fam"] for m in members), meth, "fail" in sc["policy"], sorted(set(pos))]
        out.nontrivial = fired
        out.extra["online_checks"] = online["checks"]
        out.extra["manager_polls_midrun"] = online.get("mgr_polls", 0)
        out.probe("run after an earlier run that used a cross-path signal on the same instance", False)
        out.probe("error policy in config.ini changed between two runs on one instance", False)
        out.probe("members sharing one identity", bool(sc.get("dup_ids")))
        out.probe("fail_all() by the first member of a next_paths() run with members after it", sig1 is not None and k > 1)
        out.probe("fail_all() and stop_all() on one line of a breadth-first run", sig is not None and k > 1)
        out.probe("two members importing the same csvpath that holds a fail()", sum(1 for m in members if m["fam"] == "imported_plain") > 1)
        out.probe("member with explain-mode", any(m.get("explain") for m in members))
        out.probe("member whose scan selects no line", any(m.get("scan", "*") != "*" for m in members))
        out.probe("verdict event on the last line", "last" in pos)
        out.probe("group with both valid and failed members", k > 1 and len(set(wants)) == 2)
        out.log([list(e) for e in exp], [ops.path_state(g["cp"]) for g in got], mgr_valid, len(out.violations))
    return out.done()


def _execute_p(sc, out):
    from csvpath.util.printer import TestPrinter
    from ..sim import CsvPath

    pol_fail = "fail" in sc["policy"]
    if sc.get("vm") == "fail":
        pol_fail = True
    elif sc.get("vm") == "no-fail":
        pol_fail = False
    want = not pol_fail
    head = "id:m0" + (f" validation-mode:{sc['vm']}" if sc.get("vm") else "")
    text = f'~{head}~ $%s[*][ simfault("s") push("l", line_number()) ]'
    meth = sc["method"]
    where = f"{meth} policy {sc['policy']} validation-mode {sc.get('vm')}: error on line {sc['K']} while every write to stdout fails with ENOSPC"
    with W.World(csvpath_policy=sc["policy"]) as w:
        w.write_csv("src/f.csv", [["id", "c"]] + [[f"r{l}", "x"] for l in range(1, sc["nrec"])])
        extfuncs.arm(plan=[("m0", sc["K"], "s")])
        ops._Sink.failed_writes = 0
        raised = None
        try:
            if meth == "standalone":
                with ops.quiet():
                    cp = CsvPath()
                ops._Sink.broken = True
                try:
                    with ops.quiet():
                        cp.fast_forward(text % "src/f.csv")
                except Exception as e:  # noqa: BLE001
                    if not ops.in_repo(e) and not isinstance(e, OSError):
                        raise
                    raised = e
                ops._Sink.broken = False
                out.runs += 1
                if cp.is_valid != want:
                    out.v("final_verdict", f"{where}: is_valid={cp.is_valid}, expected {want} (the run {'raised ' + type(raised).__name__ if raised else 'returned'})", family="print_fault", spurious=want)
            else:
                cs = ops.new_csvpaths()
                with ops.quiet():
                    cs.file_manager.add_named_file(name="f", path="src/f.csv")
                    cs.paths_manager.add_named_paths(name="g", paths=[text % "", "~id:m1~ $[*][ yes() ]"])
                ops._Sink.broken = True
                try:
                    ops.run_group(cs, meth, "g")
                except Exception as e:  # noqa: BLE001
                    if not ops.in_repo(e) and not isinstance(e, OSError):
                        raise
                    raised = e
                ops._Sink.broken = False
                out.runs += 1
                rs = ops.results_of(cs, "g")
                if not rs:
                    out.v("member_missing", f"{where}: no results at all", family="print_fault")
                else:
                    r0 = rs[0]
                    if r0.csvpath.is_valid != want or r0.is_valid != want:
                        out.v("final_verdict", f"{where}: member m0 is_valid={r0.csvpath.is_valid} Result.is_valid={r0.is_valid}, expected {want}", family="print_fault", spurious=want)
                    # (Result.is_valid, not CsvPath.is_valid: in a breadth-first run aborted on its first line the later
                    # members never started, and a result that never started does not count as valid)
                    conj = all(x.is_valid for x in rs)
                    if cs.results_manager.is_valid("g") != conj:
                        out.v("manager_is_valid", f"{where}: results_manager.is_valid={cs.results_manager.is_valid('g')}, conjunction of the members' verdicts is {conj}")
                    run = D.read_run(r0.run_dir)
                    mm = ((run["members"].get("m0") or {}).get("manifest")) or None
                    if mm is not None and mm.get("valid") is not None and mm.get("valid") != want:
                        out.v("member_manifest_valid", f"{where}: member m0 manifest valid={mm.get('valid')}, expected {want}", family="print_fault")
                    man = run["manifest"]
                    if man is not None and man.get("all_valid") is not None and man.get("all_valid") != conj:
                        out.v("all_valid", f"{where}: run manifest all_valid={man.get('all_valid')}, conjunction of members is {conj}")
        finally:
            ops._Sink.broken = False
        hit = ops._Sink.failed_writes > 0
        if hit:
            out.fault("stdout_enospc", ops._Sink.failed_writes)
            out.fault("error_event")
        out.probe("error handled while stdout is broken", hit)
        out.sig = ["P", meth, sc["policy"], sc.get("vm"), bool(raised)]
        out.nontrivial = hit
        out.log(meth, sc["policy"], sc.get("vm"), type(raised).__name__ if raised else None, len(out.violations))
    return out.done()


def _execute_b(sc, out):
    ok = verdictmon.install()
    verdictmon.reset()
    members = sc["members"]
    with W.World(csvpath_policy=sc["policy"]) as w:
        w.write_csv("src/f.csv", sc["rows"])
        extfuncs.arm()
        meth = sc["method"]
        cps = []
        try:
            if meth == "standalone":
                for m in members:
                    cp, printed, res = ops.standalone(gen.render(m, "src/f.csv"))
                    out.runs += 1
                    cps.append(cp)
            else:
                cs = ops.new_csvpaths()
                with ops.quiet():
                    cs.file_manager.add_named_file(name="f", path="src/f.csv")
                    cs.paths_manager.add_named_paths(name="g", paths=[gen.render(m) for m in members])
                ops.run_group(cs, meth, "g")
                out.runs += 1
                cps = [r.csvpath for r in ops.results_of(cs, "g")]
        except Exception as e:  # noqa: BLE001
            if ops.in_repo(e) and type(e).__name__ in ("VisitError", "UnexpectedCharacters", "UnexpectedEOF", "ParsingException", "UnexpectedToken"):
                out.discard = True
                return out.done()
            raise
        any_event = False
        if ok:
            for m, cp in zip(members, cps):
                n = verdictmon.count(cp)
                raised = verdictmon.errors_raised(cp)
                if raised and "fail" in sc["policy"] and n == 0:
                    # an error was raised below an expression under a policy with 'fail' and no handler ever ran
                    out.v(
                        "error_under_fail_policy_not_handled",
                        f"{meth} policy {sc['policy']}: member {gen.render(m)!r}: {raised} error(s) were raised in match components but the verdict-setting handler never ran; is_valid={cp.is_valid}",
                    )
                any_event = any_event or n > 0
                if cp.is_valid != (n == 0):
                    out.v(
                        "verdict_vs_executed_events",
                        f"{meth} policy {sc['policy']}: member {gen.render(m)!r}: is_valid={cp.is_valid} but {n} verdict-setting event(s) executed (fail()/fail_and_stop()/error handled with 'fail')",
                        spurious=n == 0,
                    )
                if n:
                    out.fault("fail_event", n)
        else:
            out.extra["secondary_monitor_not_installed"] = 1
        out.sig = ["B", meth, "fail" in sc["policy"], sorted({k for m in members for c in m["comps"] for k in ("fail()", "stop()", "skip()", "add(", "onmatch") if k in c})]
        out.nontrivial = any_event
        out.log([ops.path_state(cp) for cp in cps], len(out.violations))
    return out.done()

"""C20 - data and values flow between csvpaths as declared.

Three workloads, all under the simulated clock:
 chain   2-4 generated filter members, source-mode: preceding on a seeded suffix,
         run by collect_paths or next_paths(collect=True); oracle: the chain is the
         composition of its stages (a reference executor runs every stage as a
         standalone CsvPath over a file materialised from the previous stage's
         expected lines) and each member manifest names its actual input.
 refs    a group G run 1-3 times on one instance over different files (clock
         ticking), then a reader group using $G.variables.v, $G.variables.t.k and
         $G.headers.<col>; oracle: a model of G's most recent run.
 replay  G run 1-3 times (new or reused instances, clock ticking), then a group
         run with filename '$G.results.<prefix>:last.<id>'; oracle: the lines read
         are the parsed data.csv of that member of G's most recent run."""
import csv
import json
import os

from .. import seams, ops, gen, world as W, diskreader as D
from .common import Out, with_, drop_each, REAL_ALL, STUB_ALL

ID = "C20"
TIERS = {"quick": {"n": 3600, "chunk": 60}, "thorough": {"n": 150000, "chunk": 200, "wall_cap": 3300}}
RULE = (
    "scenario kinds: chain (1/2), refs (1/4), replay (1/4). chain: generated file, 2-4 filter members (header tests, in(), not(), line_number windows, yes(); scan windows), preceding on a suffix (1 in 3 of the longer chains: a member without the mode follows one with it), serial collecting run form. "
    "refs: G = one member assigning a plain variable, a tracking variable and collecting a column, run 1-3 times over different files, then a reader using the three reference forms. replay: G of 1-2 members run 1-3 times, "
    "then a run whose file name is a results reference with a year/day/hour/full prefix and ':last'. Non-trivial = some stage read a predecessor's data / a reference was resolved after >= 1 run; "
    "distinct = (kind, #members, suffix start, #runs of G, reference form, instance reuse, run form)."
)
ASSUMPTIONS = [
    "chains use the default CSV dialect (data.csv is always written in it; other dialects are C08/C09's subject)",
    "references to a group that has several members are only generated with an identity to select one (the library documents references as single-path)",
    "clock ticks between runs of G are >= 1 s so that 'most recent' is unambiguous",
]
REAL = REAL_ALL
STUB = STUB_ALL


def filter_comp(rng, hdr, nlines):
    k = rng.random()
    h = rng.choice(hdr[1:])
    hi = hdr.index(h)
    if k < 0.25:
        return f'not(#{hi} == "{rng.choice(["a", "b", "FAIL"])}")'
    if k < 0.4:
        return f'in(#{hi}, "a|b|c|FAIL|3|5")'
    if k < 0.5:
        return f'#{hi} == "{rng.choice(["a", "b"])}"'
    if k < 0.65:
        return f"not(empty(#{hi}))"
    if k < 0.8:
        return f"not(line_number() == {rng.randint(0, nlines)})"
    if k < 0.9:
        return f"lt(line_number(), {rng.randint(2, nlines + 2)})"
    return "yes()"


def gen_chain(rng):
    rows = gen.gen_rows(rng, min_rec=3, max_rec=10, blank_p=0.1)
    hdr = rows[0]
    if rng.random() < 0.3:
        # header cells as exported by a spreadsheet: padded, or with a stray ';' or '|' (the library cleans header names: the
        # predecessor's data.csv starts with the RAW header row, and its successor must see the same cleaned names)
        deco = lambda h: rng.choice([" " + h, h + " ", " " + h + " ", h + ";", "|" + h])  # noqa: E731
        rows[0] = [hdr[0]] + [deco(h) if rng.random() < 0.7 else h for h in hdr[1:]]
        byname = True
    else:
        byname = rng.random() < 0.3
    k = rng.randint(2, 4)
    members = []
    for j in range(k):
        comps = [filter_comp(rng, hdr, len(rows)) for _ in range(rng.choice([1, 1, 2]))]
        if byname:
            # address the columns by (cleaned) header name instead of by position
            import re

            comps = [re.sub(r"#(\d+)", lambda mt: "#" + hdr[int(mt.group(1))], c) for c in comps]
        members.append({"id": f"m{j}", "scan": rng.choice(["*", "*", "*", "1*", "0-6"]), "comps": comps})
    s = rng.randint(1, k - 1)
    for j in range(s, k):
        members[j]["modes"] = {"source-mode": "preceding"}
    if k - s >= 2 and rng.random() < 0.35:
        # a mixed chain: a member WITHOUT the mode follows one with it (and reads the named file again)
        del members[rng.randint(s + 1, k - 1)]["modes"]
    sc = {"kind": "chain", "rows": rows, "members": members, "suffix": s, "method": rng.choice(["collect_paths", "next_paths_collect"])}
    if sc["method"] == "next_paths_collect" and rng.random() < 0.4:
        # the caller pulls some lines, performs a whole run of another group on the same instance, then drains the chain
        sc["interrupt"] = {"after": rng.randint(1, 4), "method": rng.choice(["collect_paths", "fast_forward_paths", "collect_by_line", "next_paths_collect"]),
                           # ... or ANOTHER instance runs this very chain over another file in between
                           "who": rng.choice(["same_instance_other_group", "same_instance_other_group", "other_instance_same_group"])}
    return sc


def gen_refs(rng):
    # (sometimes the referenced column's NAME is all digits - a year, a rank - and is not its position)
    names = rng.choice([["h1", "h2"], ["h1", "h2"], ["2019", "2020"], ["2", "1"], ["h1", "1"]])
    files = [gen.gen_rows(rng, min_rec=2, max_rec=7, blank_p=0.1, ragged_p=0.25, hdr=["id"] + names) for _ in range(rng.randint(1, 3))]
    nruns = rng.randint(1, 3)
    runs = [{"file": rng.randrange(len(files)), "method": rng.choice(["collect_paths", "next_paths_collect", "collect_by_line"] * 2 + ops.METHODS), "tick_s": rng.choice([1, 2, 61, 3600])} for _ in range(nruns)]
    return {
        "kind": "refs",
        "files": files,
        "runs": runs,
        "gscan": rng.choice(["*", "1*"]),
        "reader_file": rng.randrange(len(files)),
        "reader_method": rng.choice(["collect_paths", "fast_forward_paths", "collect_by_line"]),
        "by_id": rng.random() < 0.5,
        "col": rng.choice([1, 2]),
        "two_members": rng.random() < 0.5,
        "selfref": rng.random() < 0.4,
        "anon": rng.random() < 0.25,
        "names": names,
        # the file the READER scans may have its columns in another order: a reference names a column of G's data, not of the reader's
        "reader_layout": rng.choice(["same", "same", "permuted"]),
    }


def gen_replay(rng):
    files = [gen.gen_rows(rng, min_rec=2, max_rec=7, ncol=3, blank_p=0.1) for _ in range(rng.randint(1, 3))]
    k = rng.randint(1, 2)
    members = [{"id": f"g{j}", "scan": rng.choice(["*", "*", "1*"]), "comps": [filter_comp(rng, files[0][0], 6)]} for j in range(k)]

    def run_op():
        return {"op": "run", "file": rng.randrange(len(files)), "method": rng.choice(["collect_paths", "next_paths_collect", "collect_by_line"]), "tick_s": rng.choice([1, 2, 61, 3600, 43200]), "inst": rng.choice(["new", "reused", "reused"])}

    def replay_op():
        return {"op": "replay", "method": rng.choice(["collect_paths", "next_paths_collect", "collect_by_line"]), "inst": rng.choice(["new", "reused", "reused"]), "tick_s": rng.choice([0, 1, 2, 5])}

    opsl = [run_op() for _ in range(rng.randint(1, 3))] + [replay_op()]
    if rng.random() < 0.5:
        # the group runs again and the SAME reference is replayed again
        opsl += [run_op() for _ in range(rng.randint(1, 2))] + [replay_op()]
    return {
        "kind": "replay",
        "files": files,
        "members": members,
        "ops": opsl,
        "target": rng.randrange(k),
        "prefix_len": rng.choice([0, 4, 4, 10, 13, 19]),  # 0: the bare form $g.results.:last.<id>
        "start_hour": rng.choice([9, 11, 12, 23]),
    }


def gen_replay_chain(rng):
    rows = gen.gen_rows(rng, min_rec=3, max_rec=9, ncol=3, blank_p=0.1)
    hdr = rows[0]
    return {
        "kind": "replay_chain",
        "rows": rows,
        "g_comp": rng.choice(["yes()", "not(line_number() == 2)", "not(empty(#1))"]),
        "x": {"id": "x", "scan": "*", "comps": [filter_comp(rng, hdr, len(rows))]},
        "y": {"id": "y", "scan": rng.choice(["*", "*", "1*"]), "comps": [filter_comp(rng, hdr, len(rows))], "modes": {"source-mode": "preceding"}},
        "method": rng.choice(["collect_paths", "next_paths_collect"]),
        "inst": rng.choice(["new", "reused"]),
        "g_runs": rng.randint(1, 2),
    }


def generate(rng, i, tier):
    kind = ["chain", "refs", "chain", "replay", "replay_chain", "refs", "chain", "replay"][i % 8]
    sc = {"chain": gen_chain, "refs": gen_refs, "replay": gen_replay, "replay_chain": gen_replay_chain}[kind](rng)
    sc["seed"] = rng.getrandbits(32)
    sc["policy"] = rng.choice([["collect", "print"], ["collect"], ["collect", "fail"]])
    return sc


def reductions(sc):
    if sc["kind"] == "chain":
        k = len(sc["members"])
        if k > 2:
            for j in range(k):
                c = with_(sc)
                del c["members"][j]
                c["members"][0].pop("modes", None)
                pre = [jj for jj, m in enumerate(c["members"]) if m.get("modes")]
                if not pre:
                    continue
                c["suffix"] = pre[0]
                yield c
        for rows in gen.rows_reductions(sc["rows"]):
            yield with_(sc, rows=rows)
        for j, m in enumerate(sc["members"]):
            for mm in gen.member_reductions(m):
                c = with_(sc)
                c["members"][j] = mm
                yield c
        if sc.get("interrupt"):
            c = with_(sc)
            del c["interrupt"]
            yield c
        if sc["method"] != "collect_paths" and not sc.get("interrupt"):
            yield with_(sc, method="collect_paths")
    elif sc["kind"] == "replay":
        for cand in drop_each(sc["ops"], 1):
            yield with_(sc, ops=cand)
        for fi in range(len(sc["files"])):
            for rows in gen.rows_reductions(sc["files"][fi]):
                c = with_(sc)
                c["files"][fi] = rows
                yield c
        for j, r in enumerate(sc["ops"]):
            if r["method"] != "collect_paths":
                c = with_(sc)
                c["ops"][j]["method"] = "collect_paths"
                yield c
            if r["tick_s"] != 1:
                c = with_(sc)
                c["ops"][j]["tick_s"] = 1
                yield c
    elif sc["kind"] == "replay_chain":
        for rows in gen.rows_reductions(sc["rows"]):
            yield with_(sc, rows=rows)
        if sc["g_runs"] > 1:
            yield with_(sc, g_runs=1)
        if sc["method"] != "collect_paths":
            yield with_(sc, method="collect_paths")
    else:
        for cand in drop_each(sc["runs"], 1):
            yield with_(sc, runs=cand)
        for fi in range(len(sc["files"])):
            for rows in gen.rows_reductions(sc["files"][fi]):
                c = with_(sc)
                c["files"][fi] = rows
                yield c
        for j, r in enumerate(sc["runs"]):
            if r["method"] != "collect_paths":
                c = with_(sc)
                c["runs"][j]["method"] = "collect_paths"
                yield c
            if r["tick_s"] != 1:
                c = with_(sc)
                c["runs"][j]["tick_s"] = 1
                yield c


def _write_default_csv(path, lines):
    # the dialect data.csv is written in: csv.writer defaults
    with open(path, "w", encoding="utf-8") as f:
        w = csv.writer(f)
        w.writerows(lines)


def _lines_of(cp_lines):
    return [[f"{c}" for c in l] for l in cp_lines]


def execute(sc):
    out = Out()
    seams.reset(sc["seed"])
    with W.World(csvpath_policy=sc["policy"]) as w:
        if sc["kind"] == "chain":
            _chain(sc, out, w)
        elif sc["kind"] == "refs":
            _refs(sc, out, w)
        elif sc["kind"] == "replay_chain":
            _replay_chain(sc, out, w)
        else:
            _replay(sc, out, w)
    return out.done()


# ---------------------------------------------------------------- chain


def _chain(sc, out, w):
    members = sc["members"]
    k = len(members)
    w.write_csv("src/f.csv", sc["rows"])
    # reference executor: chain == composition of its stages
    expected = []
    empty_seen = False
    for j, m in enumerate(members):
        plain = {kk: v for kk, v in m.items() if kk != "modes"}
        if m.get("modes"):
            if not expected[j - 1]:
                # predecessor collected nothing (today the run aborts there: known finding); whatever a tree does
                # instead of aborting, "reads exactly the lines its predecessor collected" means it reads none
                expected.append([])
                empty_seen = True
                continue
            src = f"src/stage{j}.csv"
            _write_default_csv(os.path.join(w.root, src), expected[j - 1])
        else:
            src = "src/f.csv"
        cp, printed, lines = ops.standalone(gen.render(plain, src))
        out.runs += 1
        expected.append(_lines_of(lines))
    empty_pred = empty_seen
    cs = ops.new_csvpaths()
    with ops.quiet():
        cs.file_manager.add_named_file(name="f", path="src/f.csv")
        cs.paths_manager.add_named_paths(name="g", paths=[gen.render(m) for m in members])
        cs.paths_manager.add_named_paths(name="other", paths=["~id:o~ $[*][ yes() ]", "~id:o2~ $[1*][ yes() ]"])
        origin = cs.file_manager.get_named_file("f")
    where = f"{sc['method']} chain {[gen.render(m) for m in members]}"
    exc = None
    caller = None
    seen = {"n": 0}
    intr = sc.get("interrupt") if sc["method"] == "next_paths_collect" else None

    def on_yield(line):
        seen["n"] += 1
        if intr and seen["n"] == intr["after"]:
            if intr.get("who") == "other_instance_same_group":
                cs2 = ops.new_csvpaths()
                w.write_csv("src/f2.csv", [sc["rows"][0]] + [r for r in reversed(sc["rows"][1:]) if r])
                with ops.quiet():
                    cs2.file_manager.add_named_file(name="f2", path="src/f2.csv")
                try:
                    ops.run_group(cs2, "collect_paths", "g", fname="f2")
                except Exception as e:  # noqa: BLE001
                    if not ops.in_repo(e):
                        raise  # (the chain may abort over the other file for the known empty-predecessor reason)
                out.runs += 1
                out.fault("interleaved_run")
                out.probe("another instance ran the same chain over another file while the chain was part-way")
                return
            ops.run_group(cs, intr["method"], "other")
            out.runs += 1
            out.fault("interleaved_run")
            out.probe("another run on the same instance while the chain was part-way")

    if intr:
        where += f" [after {intr['after']} line(s) " + ("another instance ran this chain over another file" if intr.get("who") == "other_instance_same_group" else f"the caller ran group 'other' by {intr['method']} on the same instance") + ", then the caller went on]"
    try:
        caller = ops.run_group(cs, sc["method"], "g", on_yield=on_yield)
    except Exception as e:  # noqa: BLE001
        exc = e
    out.runs += 1
    if exc is not None:
        j = next((x for x in range(1, k) if members[x].get("modes") and x - 1 < len(expected) and not expected[x - 1]), k - 1)
        out.v(
            "chain_member_raised",
            f"{where}: the run raised {ops.exc_sig(exc)}" + (f" (member m{j} has source-mode preceding and its predecessor collected 0 lines)" if empty_pred else ""),
            predecessor_collected_nothing=bool(empty_pred),
            exc=type(exc).__name__,
        )
        out.sig = ["chain", k, sc["suffix"], sc["method"], "empty_pred" if empty_pred else "raised"]
        out.nontrivial = True
        out.log("raised", ops.exc_sig(exc))
        return
    rs = ops.results_of(cs, "g")
    run_dir = rs[0].run_dir
    if len(rs) != k:
        out.v("results_count", f"{where}: {len(rs)} results for {k} members")
    flowed = False
    for j, (m, r) in enumerate(zip(members, rs)):
        got = ops.result_lines(r)
        want = expected[j] if j < len(expected) else None
        if want is None:
            continue
        pre = bool(m.get("modes"))
        if got != want:
            out.v(
                "chain_not_composition",
                f"{where}: member m{j} ({'reads m%d/data.csv' % (j - 1) if pre else 'reads the named file'}) collected {got!r:.300}, the stage run on its declared input gives {want!r:.300}",
                preceding=pre,
                member=j,
            )
        mm = None
        try:
            mm = D.read_json(os.path.join(run_dir, f"m{j}", "manifest.json"))
        except D.ReadError as e:
            out.v("member_manifest_unreadable", f"{where}: {e}")
        if mm is not None:
            want_file = os.path.join(run_dir, f"m{j - 1}", "data.csv") if pre else origin
            if mm.get("actual_data_file") != want_file:
                out.v("actual_data_file", f"{where}: member m{j} manifest actual_data_file={mm.get('actual_data_file')!r}, its declared input is {want_file!r}", preceding=pre)
            if bool(mm.get("source_mode_preceding")) != pre:
                out.v("source_mode_flag", f"{where}: member m{j} manifest source_mode_preceding={mm.get('source_mode_preceding')}, declared {pre}", preceding=pre)
        if pre and want is not None:
            flowed = True
            out.fault("stage_reads_predecessor")
    if sc["method"] == "next_paths_collect" and caller is not None:
        want_stream = [l for e in expected if e for l in e]
        if caller != want_stream:
            out.v("chain_caller_stream", f"{where}: caller saw {caller!r:.300}, concatenation of the stages' lines is {want_stream!r:.300}")
    out.sig = ["chain", k, sc["suffix"], sc["method"], [len(e) if e is not None else None for e in expected][:4]]
    out.nontrivial = flowed
    out.probe("another run on the same instance while the chain was part-way", False)
    out.probe("another instance ran the same chain over another file while the chain was part-way", False)
    out.probe("chain over a file whose header cells need cleaning, filters by header name", any(h != h.strip() or ";" in h or "|" in h for h in sc["rows"][0]))
    out.probe("member without source-mode after one with it", any(members[j].get("modes") and not members[j + 1].get("modes") for j in range(k - 1)))
    out.probe("predecessor dropped the header record", any(e and e[0] and e[0][0] != "id" for e in expected[:-1] if e))
    out.log(expected, len(out.violations))


# ---------------------------------------------------------------- refs


def _g_member(sc):
    return {"id": "g0", "scan": sc["gscan"], "comps": ["@v = #1", "@t.k = line_number()", "@t.j = count()", 'push("s", #2)', "@n = count()"]}


def _g2_member(sc, selfref=False):
    # (n is also set by g0, over another scan window: the reference must agree with the manager's merged view)
    comps = ["@w = #2", "@n2 = count()", "@n = add(count(), 100)"]
    if selfref:
        # the group's last member looks at its own group's variables while it runs (legal; what it sees is not asserted)
        comps.append("@sr = $G.variables.v")
    return {"id": "g1", "scan": "*", "comps": comps}


def _refs(sc, out, w):
    for fi, rows in enumerate(sc["files"]):
        w.write_csv(f"src/f{fi}.csv", rows)
    gm = _g_member(sc)
    two = bool(sc.get("two_members"))
    gms = [gm] + ([_g2_member(sc, selfref=bool(sc.get("selfref")))] if two else [])
    col = sc.get("col", 1)
    # with two members a header reference must name the member (the library documents references as single-path)
    by_id = sc["by_id"] or two
    hname = (sc.get("names") or ["h1", "h2"])[col - 1]
    anon = bool(sc.get("anon")) and not sc.get("selfref")
    if anon:
        # members without an identity are known by their position in the group
        for m in gms:
            m["id"] = None
    n0, n1 = ("0", "1") if anon else ("g0", "g1")
    ref_h = f"$G.headers.{hname}.{n0}" if by_id else f"$G.headers.{hname}"
    cs = ops.new_csvpaths()
    with ops.quiet():
        for fi in range(len(sc["files"])):
            cs.file_manager.add_named_file(name=f"f{fi}", path=f"src/f{fi}.csv")
        cs.paths_manager.add_named_paths(name="G", paths=[gen.render(m) for m in gms])
        reader = f"~id:r0~ $[*][ @a = $G.variables.v  @b = $G.variables.t.k  @n = $G.variables.n  @sl = $G.variables.s  @bj = $G.variables.t.j  @tw = $G.variables.t  @h = {ref_h}" + (f"  @w = $G.variables.w  @n2 = $G.variables.n2  @h1 = $G.headers.{hname}.{n1}" if two else "") + " ]"
        cs.paths_manager.add_named_paths(name="R", paths=[reader])
    reader_name = f"f{sc['reader_file']}"
    if sc.get("reader_layout") == "permuted":
        src_rows = sc["files"][sc["reader_file"]]
        perm_rows = [([r[2], r[0], r[1]] if len(r) >= 3 else list(reversed(r))) for r in src_rows]
        w.write_csv("src/reader.csv", perm_rows)
        with ops.quiet():
            cs.file_manager.add_named_file(name="freader", path="src/reader.csv")
        reader_name = "freader"
        out.probe("reader scans a file whose columns are in another order")
    last = None
    for ri, run in enumerate(sc["runs"]):
        seams.SimClock.advance(seconds=run["tick_s"])
        out.fault("clock_forward")
        ops.run_group(cs, run["method"], "G", fname=f"f{run['file']}")
        out.runs += 1
        last = run
        if ri:
            out.fault("instance_reuse")
    # model: G's most recent run == standalone runs of its members over that run's file
    cp, printed, lines = ops.standalone(gen.render(gm, f"src/f{last['file']}.csv"))
    out.runs += 1
    want_vars = ops.jsonable(cp.variables)
    lines2 = None
    if two:
        cp2, _, lines2 = ops.standalone(gen.render(_g2_member(sc), f"src/f{last['file']}.csv"))
        out.runs += 1
        v2 = ops.jsonable(cp2.variables)
        n_of = [want_vars.get("n"), v2.get("n")]
        want_vars.update({kk: vv for kk, vv in v2.items() if kk != "n"})
        # n is set by both members: "the value the group left in n" is what the results manager's own merged view says
        merged_n = ops.jsonable(cs.results_manager.get_variables("G")).get("n")
        if merged_n not in n_of and not sc.get("selfref"):
            out.v("merged_variables", f"results_manager.get_variables('G')['n'] = {merged_n!r} is the final n of neither member ({n_of})")
        want_vars["n"] = merged_n
    want_col = [f"{l[col]}".strip() for l in lines if len(l) > col and l[col] is not None]
    seams.SimClock.advance(seconds=1)
    ops.run_group(cs, sc["reader_method"], "R", fname=reader_name)
    out.runs += 1
    rv = ops.jsonable(ops.results_of(cs, "R")[0].csvpath.variables)
    errs = ops.norm_errors(ops.results_of(cs, "R")[0].errors)
    where = f"G ({len(gms)} member(s)) run {len(sc['runs'])} time(s), last over f{last['file']} by {last['method']}; reader {sc['reader_method']}"
    selfref = two and bool(sc.get("selfref"))
    # (with the self-reference in g1 its match counts depend on what the reference saw mid-run: only values that do not are compared)
    pairs = [("a", "v", "$G.variables.v")] + ([] if selfref else [("n", "n", "$G.variables.n")]) + ([("w", "w", "$G.variables.w")] if two else []) + ([("n2", "n2", "$G.variables.n2")] if two and not selfref else [])
    for var, key, form in pairs:
        if rv.get(var) != want_vars.get(key):
            out.v("variable_reference", f"{where}: {form} evaluated to {rv.get(var)!r}, the most recent run of G left {want_vars.get(key)!r} (errors {errs})", form="plain")
    raw_sl = ops.results_of(cs, "R")[0].csvpath.variables.get("sl")
    want_sl = cp.variables.get("s")
    if raw_sl != want_sl:
        out.v("variable_reference", f"{where}: $G.variables.s evaluated to {raw_sl!r}, the most recent run of G left {want_sl!r} (errors {errs})", form="stack")
    want_t = want_vars.get("t") or {}
    if rv.get("bj") != want_t.get("j"):
        out.v("variable_reference", f"{where}: $G.variables.t.j evaluated to {rv.get('bj')!r}, the most recent run of G left {want_t.get('j')!r} (the same csvpath also reads $G.variables.t.k and $G.variables.t; errors {errs})", form="tracking2")
    if want_t and rv.get("tw") != want_t:
        out.v("variable_reference", f"{where}: $G.variables.t evaluated to {rv.get('tw')!r}, the most recent run of G left {want_t!r} (errors {errs})", form="whole_tracking")
    if two and not selfref and lines2 is not None and last["method"] in ops.COLLECTING:
        want_col1 = [f"{l[col]}".strip() for l in lines2 if len(l) > col and l[col] is not None]
        if rv.get("h1") != want_col1:
            out.v("header_reference", f"{where}: $G.headers.{hname}.g1 evaluated to {rv.get('h1')!r}, the values g1 collected under column {col} are {want_col1!r} (the same csvpath also reads {ref_h}; errors {errs})", by_id=True, second_member=True)
    want_b = (want_vars.get("t") or {}).get("k")
    if rv.get("b") != want_b:
        out.v("variable_reference", f"{where}: $G.variables.t.k evaluated to {rv.get('b')!r}, the most recent run of G left {want_b!r} (errors {errs})", form="tracking")
    if lines and last["method"] in ops.COLLECTING:
        if rv.get("h") != want_col:
            out.v("header_reference", f"{where}: {ref_h} evaluated to {rv.get('h')!r}, the values collected under column {col} ({hname!r}) are {want_col!r} (errors {errs})", by_id=by_id)
    out.fault("reference_resolved", 5 + (2 if two else 0))
    out.sig = ["refs", len(sc["runs"]), [r["method"] for r in sc["runs"]], sc["reader_method"], by_id, len({r["file"] for r in sc["runs"]}), two]
    out.nontrivial = True
    out.probe("reference after the group ran more than once", len(sc["runs"]) > 1)
    out.probe("reference into a group of two members", two)
    out.probe("header reference to a member known only by its position", anon and by_id)
    out.probe("referenced group whose last member reads its own group's variables mid-run", two and bool(sc.get("selfref")))
    out.probe("reference to a variable that two members set to different values", two and len(set(map(str, n_of))) > 1 if two else False)
    out.probe("header reference to a digit-only header name", hname.isdigit())
    out.probe("reader scans a file whose columns are in another order", False)
    out.log(rv, want_vars, want_col, len(out.violations))


# ---------------------------------------------------------------- replay


def _replay(sc, out, w):
    for fi, rows in enumerate(sc["files"]):
        w.write_csv(f"src/f{fi}.csv", rows)
    seams.SimClock.set(seams.EPOCH.replace(hour=sc["start_hour"], minute=59, second=rng_free_second(sc)))
    members = sc["members"]
    cs = ops.new_csvpaths()
    with ops.quiet():
        for fi in range(len(sc["files"])):
            cs.file_manager.add_named_file(name=f"f{fi}", path=f"src/f{fi}.csv")
        cs.paths_manager.add_named_paths(name="G", paths=[gen.render(m) for m in members])
        cs.paths_manager.add_named_paths(name="R", paths=["~id:r0~ $[*][ yes() ]"])
    tid = members[sc["target"]]["id"]
    last_dir = None
    g_runs = 0
    replays = 0
    hist = []
    for oi, op in enumerate(sc["ops"]):
        seams.SimClock.advance(seconds=op["tick_s"])
        out.fault("clock_forward")
        if op["inst"] == "new":
            cs = ops.new_csvpaths()
            out.fault("restart")
        elif oi:
            out.fault("instance_reuse")
        if op["op"] == "run":
            ops.run_group(cs, op["method"], "G", fname=f"f{op['file']}")
            out.runs += 1
            g_runs += 1
            last_dir = ops.results_of(cs, "G")[0].run_dir
            hist.append(f"run(f{op['file']},{op['inst']})")
            continue
        if last_dir is None:
            continue
        data_path = os.path.join(last_dir, tid, "data.csv")
        prefix = os.path.basename(last_dir)[: sc["prefix_len"]]
        ref = f"$G.results.{prefix}:last.{tid}"
        hist.append(f"replay({ref},{op['inst']})")
        if "." in prefix or not os.path.isfile(data_path):
            # a '.N' suffixed directory cannot be named in a reference; no data.csv means the member collected nothing
            continue
        # 'most recent run whose name has the prefix': every earlier run of G in this history is older (clock only moves forward)
        want = D.read_csv(data_path)
        where = f"history {hist}; reader {op['method']}"
        try:
            ops.run_group(cs, op["method"], "R", fname=ref)
        except Exception as e:  # noqa: BLE001
            out.v("replay_raised", f"{where}: raised {ops.exc_sig(e)}; expected a replay of {data_path}", exc=type(e).__name__, nth_replay=replays)
            break
        out.runs += 1
        replays += 1
        r = ops.results_of(cs, "R")[0]
        got = ops.result_lines(r)
        if got != want:
            out.v("replay_lines", f"{where}: read {got!r:.300}, the referenced member's data.csv of the most recent run ({data_path}) holds {want!r:.300}", nth_replay=replays)
        try:
            mm = D.read_json(os.path.join(r.run_dir, "r0", "manifest.json"))
            if mm.get("actual_data_file") != data_path:
                out.v("replay_actual_data_file", f"{where}: reader manifest actual_data_file={mm.get('actual_data_file')!r}, expected {data_path!r}", nth_replay=replays)
        except D.ReadError as e:
            out.v("member_manifest_unreadable", f"{where}: {e}")
        out.fault("reference_resolved")
        if out.violations:
            break
    out.sig = ["replay", len(members), [o["op"][0] + o["inst"][0] for o in sc["ops"]], sc["prefix_len"], [o["method"] for o in sc["ops"] if o["op"] == "replay"]]
    out.nontrivial = replays > 0
    out.probe("results reference after more than one run", g_runs > 1 and replays > 0)
    out.probe("same reference replayed again after the group ran again", replays > 1)
    out.log(hist, replays, len(out.violations))


def _replay_chain(sc, out, w):
    """G = [a] runs; then K = [x, y(source-mode: preceding)] runs with a results reference as its file name:
    x replays a's data.csv, y reads what x collected."""
    w.write_csv("src/f.csv", sc["rows"])
    cs = ops.new_csvpaths()
    with ops.quiet():
        cs.file_manager.add_named_file(name="f", path="src/f.csv")
        cs.paths_manager.add_named_paths(name="G", paths=[f"~id:a~ $[*][ {sc['g_comp']} ]"])
        cs.paths_manager.add_named_paths(name="K", paths=[gen.render(sc["x"]), gen.render(sc["y"])])
    last_dir = None
    for _ in range(sc["g_runs"]):
        seams.SimClock.advance(seconds=3)
        ops.run_group(cs, "collect_paths", "G", fname="f")
        out.runs += 1
        last_dir = ops.results_of(cs, "G")[0].run_dir
    data_path = os.path.join(last_dir, "a", "data.csv")
    if not os.path.isfile(data_path):
        out.sig = ["replay_chain", "no data"]
        return
    a_lines = D.read_csv(data_path)
    # reference executor
    _write_default_csv(os.path.join(w.root, "src/stage_x.csv"), a_lines)
    cpx, _, lx = ops.standalone(gen.render({k: v for k, v in sc["x"].items()}, "src/stage_x.csv"))
    want_x = _lines_of(lx)
    out.runs += 1
    want_y = None
    if want_x:
        _write_default_csv(os.path.join(w.root, "src/stage_y.csv"), want_x)
        cpy, _, ly = ops.standalone(gen.render({k: v for k, v in sc["y"].items() if k != "modes"}, "src/stage_y.csv"))
        want_y = _lines_of(ly)
        out.runs += 1
    seams.SimClock.advance(seconds=3)
    if sc["inst"] == "new":
        cs = ops.new_csvpaths()
        out.fault("restart")
    ref = f"$G.results.{os.path.basename(last_dir)[:4]}:last.a"
    where = f"G ran {sc['g_runs']} time(s); K=[{gen.render(sc['x'])!r}, {gen.render(sc['y'])!r}] run by {sc['method']} with filename {ref!r}"
    try:
        ops.run_group(cs, sc["method"], "K", fname=ref)
    except Exception as e:  # noqa: BLE001
        out.v("chain_member_raised", f"{where}: raised {ops.exc_sig(e)}", predecessor_collected_nothing=not want_x, exc=type(e).__name__)
        out.sig = ["replay_chain", "raised"]
        out.nontrivial = True
        return
    out.runs += 1
    rs = ops.results_of(cs, "K")
    got_x = ops.result_lines(rs[0]) if rs else None
    if got_x != want_x:
        out.v("replay_lines", f"{where}: member x collected {got_x!r:.300}; replaying {data_path} through x gives {want_x!r:.300}", nth_replay=1)
    if want_y is not None and len(rs) > 1:
        got_y = ops.result_lines(rs[1])
        if got_y != want_y:
            out.v("chain_not_composition", f"{where}: member y (reads x/data.csv) collected {got_y!r:.300}, the stage run on x's lines gives {want_y!r:.300}", preceding=True, member=1)
        try:
            mm = D.read_json(os.path.join(rs[1].run_dir, "y", "manifest.json"))
            want_file = os.path.join(rs[1].run_dir, "x", "data.csv")
            if mm.get("actual_data_file") != want_file:
                out.v("actual_data_file", f"{where}: member y manifest actual_data_file={mm.get('actual_data_file')!r}, its declared input is {want_file!r}", preceding=True)
        except D.ReadError as e:
            out.v("member_manifest_unreadable", f"{where}: {e}")
        out.fault("stage_reads_predecessor")
    out.fault("reference_resolved")
    out.sig = ["replay_chain", sc["g_runs"], sc["method"], sc["inst"], len(want_x), None if want_y is None else len(want_y)]
    out.nontrivial = True
    out.probe("results reference as the file of a chain with a preceding member", True)
    out.log(want_x, want_y, len(out.violations))


def rng_free_second(sc):
    return 50 + (sc["seed"] % 10)

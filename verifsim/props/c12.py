"""C12 - named-paths groups round-trip and select by identity.

Workload: histories over add_named_paths / identical re-add / replace /
remove_named_paths / restart on two group names, members with outer comments,
inner comments, newlines and identities in all six spellings (plus
lower-precedence decoys).  Oracle: abstract ordered-group store with a version
counter; lookups by name, name#id, $name.csvpaths.id, :from, :to through the live
and a fresh instance; manifest and group file read from disk."""
import datetime as _dt
import hashlib
import json
import os

from .. import seams, ops, world as W
from .common import Out, drop_each, with_, REAL_ALL, STUB_ALL

ID = "C12"
TIERS = {"quick": {"n": 2500, "chunk": 60}, "thorough": {"n": 100000, "chunk": 300, "wall_cap": 3000}}
RULE = (
    "each scenario is a seeded history (3-8 ops, 1 in 8 up to 20) over {add_named_paths of 1-5 generated members, identical re-add, replace, remove, restart; 15% of the adds first fail with the group-file write torn by ENOSPC after 0/50/90/100% and are retried, others have their k-th (1-10) file-system call inside the named-paths area fail with EIO and are retried} on 2 group names; "
    "members carry id/Id/ID/name/Name/NAME identities (some with a lower-precedence decoy key equal to a sibling's identity) in a leading, second or trailing outer comment, inner comments (some looking like metadata) and newlines; after every op all lookups "
    "are compared with the model via a live and a fresh instance and the manifest is read from disk. Non-trivial = some group was re-added or replaced, or a lookup by identity was compared; "
    "distinct = distinct op-class sequences (op, group, change class, member count, identity spellings used)."
)
ASSUMPTIONS = [
    "members never contain the literal separator line '---- CSVPATH ----' and identities are words of (also non-ASCII) letters, digits, '-', '_', '+' separated by single blanks, without '.', '#', ':' (the reference syntax cannot express others)",
    "identities are distinct within a group; members without identity are only addressed by position",
    "groups are added from lists of strings; from_file/from_dir/from_json loaders are not explored",
]
REAL = REAL_ALL
STUB = STUB_ALL + ["builtins.open / os.* / shutil.* during an add with fault_at=k: the k-th call naming a path inside the named-paths area raises EIO before doing anything (verifsim/iofault.py)", "builtins.open during a torn add: the first write to a group.csvpaths file stores a prefix and raises ENOSPC (disk-full fault); the add is then retried"]

GROUPS = ["g0", "g1"]
KEYS = ["id", "Id", "ID", "name", "Name", "NAME"]
BODIES = [
    "yes()",
    '#0 == "a"',
    "@c = count()",
    'print("hello $.csvpath.line_number")',
    "line_number() == 2 -> stop()",
    'push("s", #1)',
    "not(empty(#1))",
]


def gen_member_text(rng, ident, decoy=None, inner_decoy=None):
    parts = []
    if ident is not None:
        key = rng.choice(KEYS)
        fields = [f"{key}: {ident}" if rng.random() < 0.5 else f"{key}:{ident}"]
        if decoy is not None and KEYS.index(key) < len(KEYS) - 1:
            dkey = rng.choice(KEYS[KEYS.index(key) + 1 :])
            fields.append(f"{dkey}: {decoy}")
        if rng.random() < 0.4:
            fields.append(rng.choice(["description: checks the second column", "author: someone", "note: 3 things to see"]))
        idc = "~ " + rng.choice([" ", "\n  "]).join(fields) + " ~"
        # where the identifying outer comment sits: leading (usual), second after a plain remark, or trailing
        place = rng.choice(["lead"] * 6 + ["second", "trail"])
    elif rng.random() < 0.3:
        parts.append("~ just some words without any field ~")
    n = rng.randint(1, 3)
    comps = [rng.choice(BODIES) for _ in range(n)]
    r = rng.random()
    if r < 0.3:
        comps.insert(rng.randint(0, len(comps)), "~ inner remark ~")
    elif r < 0.45:
        # an INNER comment that looks like metadata: it never identifies the csvpath
        comps.insert(rng.randint(0, len(comps)), f"~ {rng.choice(['id', 'name'])}: {inner_decoy or 'zz9'} ~")
    sep = rng.choice([" ", "\n    ", "\n"])
    scan = rng.choice(["*", "1*", "0-3", "1+3"])
    body = f"$[{scan}][" + sep + sep.join(comps) + sep + "]"
    if ident is not None:
        if place == "lead":
            parts += [idc, body]
        elif place == "second":
            parts += ["~ a remark that comes first ~", idc, body]
        else:
            parts += [body, idc]
    else:
        parts.append(body)
    return rng.choice(["\n", " ", "\n\n"]).join(parts)


def gen_members(rng, tag):
    k = rng.randint(1, 5)
    idents = []
    digits = rng.random() < 0.2  # identities that look like positions: "0", "1", ... placed at other positions
    wordy = rng.random() < 0.25
    perm = list(range(k + 1))
    rng.shuffle(perm)
    for j in range(k):
        if rng.random() < 0.25:
            idents.append(None)
        elif digits:
            idents.append(str(perm[j]))
        elif wordy and rng.random() < 0.7:
            # several-word identities and ones with punctuation the reference syntax does not reserve
            idents.append(rng.choice([f"\u00e9lan{tag}m{j}", f"\u00dcber{tag}m{j}", f"caf\u00e9 {tag}m{j}", f"\u6587{tag}m{j}", f"{tag} m{j}", f"my {tag}m{j} path", f"{tag}-m{j}", f"{tag}_m{j}", f"{tag}m{j}+", f"{tag}m{j} 34d", f"m{j} {tag} to"]))
        else:
            # (endings that collide with the letters of the ':to' / ':from' directives included)
            idents.append(f"{tag}m{j}{rng.choice(['', 'x', '7', 't', 'o', 'to', 'f', 'r', 'm', 'from', 'photo', 'room'])}")
    out = []
    named = [i for i in idents if i is not None]
    for j, ident in enumerate(idents):
        decoy = None
        if ident is not None and len(named) > 1 and rng.random() < 0.3:
            decoy = rng.choice([x for x in named if x != ident])
        # (an inner pseudo-identity, when generated, is a sibling's real identity or one nobody has)
        inner = rng.choice([x for x in named if x != ident] or [None]) if rng.random() < 0.6 else None
        out.append({"ident": ident, "text": gen_member_text(rng, ident, decoy, inner)})
    return out


def generate(rng, i, tier):
    long = rng.random() < 0.125
    n = rng.randint(9, 20) if long else rng.randint(3, 8)
    opsl = []
    pool = {g: [] for g in GROUPS}  # lists of member-lists already used, for identical re-adds
    tagc = 0
    for _ in range(n):
        k = rng.choice(["add", "add", "add", "readd", "readd", "remove", "restart"])
        g = rng.choice(GROUPS)
        if k == "add" or (k == "readd" and not pool[g]):
            tagc += 1
            ms = gen_members(rng, f"t{tagc}")
            pool[g].append(ms)
            opsl.append({"op": "add", "group": g, "members": ms, "via": rng.choice(["list", "list", "list", "file"])})
            if rng.random() < 0.15:
                # the write of the group file dies part-way (disk full); the caller tries again at once
                opsl[-1]["torn"] = rng.choice([0.0, 0.5, 0.9, 1.0])
            elif rng.random() < 0.2:
                # the k-th file-system call the add makes inside the named-paths area fails (EIO); the caller tries again
                opsl[-1]["fault_at"] = rng.randint(1, 10)
                opsl[-1]["after_fault"] = rng.choice(["retry", "retry", "revert"])
        elif k == "readd":
            ms = rng.choice(pool[g][-2:])
            opsl.append({"op": "add", "group": g, "members": ms})
            if rng.random() < 0.15:
                opsl[-1]["torn"] = rng.choice([0.0, 0.5, 0.9, 1.0])
            elif rng.random() < 0.2:
                opsl[-1]["fault_at"] = rng.randint(1, 10)
                opsl[-1]["after_fault"] = rng.choice(["retry", "retry", "revert"])
        elif k == "remove":
            opsl.append({"op": "remove", "group": g})
            if rng.random() < 0.3:
                # the delete dies part-way (I/O error after one file is gone); the caller asks again
                opsl[-1]["fault_at"] = rng.randint(1, 3)
        elif rng.random() < 0.4:
            # the caller goes on with the OTHER of two long-lived instances
            opsl.append({"op": "swap"})
        else:
            opsl.append({"op": "restart"})
    return {"seed": rng.getrandbits(32), "listdir_salt": rng.choice([None, rng.getrandbits(16)]), "ops": opsl, "clock": rng.choice(["frozen", "frozen", "tick", "jumps"]), "log": rng.choice(["error"] * 5 + ["debug", "info"]), "inputs_prefix": rng.choice([""] * 4 + ["./", ".//"]), "inputs_suffix": rng.choice([""] * 4 + ["/"])}


def reductions(sc):
    for cand in drop_each(sc["ops"], 1):
        yield with_(sc, ops=cand)
    for j, op in enumerate(sc["ops"]):
        if op["op"] == "add" and op.get("via") == "file":
            c = with_(sc)
            c["ops"][j]["via"] = "list"
            yield c
        if op["op"] == "add" and op.get("fault_at") is not None:
            c = with_(sc)
            del c["ops"][j]["fault_at"]
            yield c
        if op["op"] == "add" and op.get("torn") is not None:
            c = with_(sc)
            del c["ops"][j]["torn"]
            yield c
        if op["op"] == "add" and len(op["members"]) > 1:
            for cand in drop_each(op["members"], 1):
                c = with_(sc)
                c["ops"][j]["members"] = cand
                yield c
    if sc.get("listdir_salt") is not None:
        yield with_(sc, listdir_salt=None)
    if sc.get("clock", "frozen") != "frozen":
        yield with_(sc, clock="frozen")
    if sc.get("log", "error") != "error":
        yield with_(sc, log="error")
    if sc.get("inputs_prefix"):
        yield with_(sc, inputs_prefix="")
    if sc.get("inputs_suffix"):
        yield with_(sc, inputs_suffix="")


def _strip(lst):
    return None if lst is None else [s.strip() for s in lst]


class _torn_group_write:
    """Disk-full seam: while active, the first write to a file called group.csvpaths that is opened for writing
    stores only `cut` of the text and raises ENOSPC."""

    def __init__(self, cut):
        self.cut = cut
        self.state = {"fired": 0}

    def __enter__(self):
        import builtins
        import errno

        self.real = builtins.open
        st, cut, real = self.state, self.cut, self.real

        class Torn:
            def __init__(self, f):
                self.f = f

            def write(self, data):
                if st["fired"]:
                    return self.f.write(data)
                st["fired"] += 1
                self.f.write(data[: int(len(data) * cut)])
                self.f.flush()
                raise OSError(errno.ENOSPC, "No space left on device (simulated)")

            def __enter__(self):
                self.f.__enter__()
                return self

            def __exit__(self, *a):
                return self.f.__exit__(*a)

            def __getattr__(self, name):
                return getattr(self.f, name)

        def opener(file, mode="r", *a, **kw):
            f = real(file, mode, *a, **kw)
            if not st["fired"] and isinstance(file, str) and os.path.basename(file) == "group.csvpaths" and ("w" in mode or "a" in mode) and "b" not in mode:
                return Torn(f)
            return f

        builtins.open = opener
        return st

    def __exit__(self, *a):
        import builtins

        builtins.open = self.real
        return False


def _stored_text(texts):
    f = ""
    for t in texts:
        f = f"{f}\n\n---- CSVPATH ----\n\n{t}"
    return f


def _lookups(out, pm, who, model, step):
    try:
        names = set(pm.named_paths_names)
    except Exception as e:  # noqa: BLE001
        out.v("names_raise", f"step {step} [{who}] named_paths_names raised {ops.exc_sig(e)}", who=who)
        names = None
    if names is not None and names != set(model):
        out.v("names", f"step {step} [{who}] named_paths_names {sorted(names)} != model {sorted(model)}", who=who)
    for g in GROUPS:
        if g not in model:
            try:
                got = pm.get_named_paths(g)
            except Exception as e:  # noqa: BLE001
                out.v("absent_raises", f"step {step} [{who}] get_named_paths({g}) of an absent group raised {ops.exc_sig(e)}", who=who)
                continue
            if got:
                out.v("absent_visible", f"step {step} [{who}] absent group {g} returns {len(got)} csvpaths", who=who)
            continue
        members = model[g]["members"]
        texts = [m["text"].strip() for m in members]

        def ask(ref, want, kind):
            try:
                got = _strip(pm.get_named_paths(ref))
            except Exception as e:  # noqa: BLE001
                out.v(f"{kind}_raises", f"step {step} [{who}] get_named_paths({ref!r}) raised {ops.exc_sig(e)}", who=who, kind=kind)
                return
            if got != want:
                out.v(kind, f"step {step} [{who}] get_named_paths({ref!r}) returned {got!r}, registered {want!r}", who=who)

        ask(g, texts, "roundtrip")
        for j, m in enumerate(members):
            ident = m["ident"]
            if ident is None:
                continue
            out.nontrivial = True
            ask(f"{g}#{ident}", [texts[j]], "select_hash")
            ask(f"${g}.csvpaths.{ident}", [texts[j]], "select_ref")
            ask(f"${g}.csvpaths.{ident}:from", texts[j:], "select_from")
            ask(f"${g}.csvpaths.{ident}:to", texts[: j + 1], "select_to")
        try:
            cnt = pm.number_of_named_paths(g)
            if cnt != len(texts):
                out.v("count", f"step {step} [{who}] number_of_named_paths({g})={cnt} model {len(texts)}", who=who)
        except Exception as e:  # noqa: BLE001
            out.v("count_raises", f"step {step} [{who}] number_of_named_paths raised {ops.exc_sig(e)}", who=who)


def _disk(out, model, step):
    for g, st in model.items():
        home = os.path.join("inputs", "named_paths", g)
        gp = os.path.join(home, "group.csvpaths")
        try:
            with open(gp, "rb") as f:
                gbytes = f.read()
            with open(os.path.join(home, "manifest.json"), encoding="utf-8") as f:
                man = json.load(f)
        except Exception as e:  # noqa: BLE001
            out.v("store_unreadable", f"step {step} {home}: {ops.exc_sig(e)}")
            continue
        if len(man) != st["versions"]:
            out.v(
                "manifest_entries",
                f"step {step} {g}: manifest has {len(man)} entries, content changed {st['versions']} time(s)",
                longer=len(man) > st["versions"],
            )
        if man:
            last = man[-1]
            if last.get("fingerprint") != hashlib.sha256(gbytes).hexdigest():
                out.v("manifest_fingerprint", f"step {step} {g}: last manifest fingerprint is not the sha256 of {gp}")
            if str(last.get("time", "2031"))[:4] < "2031":
                out.v("CLOCK-SEAM-BYPASSED", f"manifest time {last.get('time')}")
            want_ids = [m["ident"] if m["ident"] is not None else f"{j}" for j, m in enumerate(st["members"])]
            if last.get("named_paths_identities") != want_ids:
                out.v("manifest_identities", f"step {step} {g}: manifest identities {last.get('named_paths_identities')} != {want_ids}")
            if last.get("named_paths_count") != len(st["members"]):
                out.v("manifest_count", f"step {step} {g}: manifest named_paths_count {last.get('named_paths_count')} != {len(st['members'])}")


def execute(sc):
    out = Out()
    seams.reset(sc["seed"], listdir_salt=sc.get("listdir_salt"))
    with W.World(log_level=sc.get("log", "error"), inputs_prefix=sc.get("inputs_prefix", ""), inputs_suffix=sc.get("inputs_suffix", "")):
        cs = ops.new_csvpaths()
        cs_alt = None
        model = {}
        for step, op in enumerate(sc["ops"]):
            k = op["op"]
            cls = [k]
            # the wall clock between two operations: frozen, +1 s, or jumping (forwards by hours, backwards by a minute)
            if sc.get("clock") == "tick":
                seams.SimClock.advance(seconds=1)
                out.fault("clock_forward")
            elif sc.get("clock") == "jumps" and step:
                if (sc["seed"] >> (step % 24)) & 1:
                    seams.SimClock.set(seams.SimClock.peek() - _dt.timedelta(seconds=60))
                    out.fault("clock_back")
                else:
                    seams.SimClock.advance(hours=5)
                    out.fault("clock_forward")
            if k == "add":
                g = op["group"]
                texts = [m["text"] for m in op["members"]]
                if op.get("via") == "file":
                    # the same members delivered as a .csvpaths file (members separated by the marker line)
                    fp = os.path.join("src", f"{g}-{step}.csvpaths")
                    with open(fp, "w", encoding="utf-8") as f:
                        f.write("\n---- CSVPATH ----\n".join(texts))
                    with ops.quiet():
                        cs.paths_manager.add_named_paths(name=g, from_file=fp)
                    texts = [t.strip() for t in texts]
                    out.probe("group added from a file")
                else:
                    if op.get("torn") is not None:
                        with _torn_group_write(op["torn"]) as torn:
                            try:
                                with ops.quiet():
                                    cs.paths_manager.add_named_paths(name=g, paths=texts)
                                if torn["fired"]:
                                    out.v("disk_error_swallowed", f"step {step}: writing the group file of {g} failed with ENOSPC but add_named_paths returned normally")
                            except OSError:
                                if not torn["fired"]:
                                    raise
                        if torn["fired"]:
                            out.fault("torn_group_write")
                            cls.append("torn-then-retried")
                    if op.get("fault_at") is not None:
                        from ..iofault import IOFault

                        with IOFault(at=op["fault_at"], under=[os.path.join("inputs", "named_paths")]) as fst:
                            try:
                                with ops.quiet():
                                    cs.paths_manager.add_named_paths(name=g, paths=texts)
                            except Exception as e:  # noqa: BLE001
                                if not fst["fired"] or (not ops.in_repo(e) and not isinstance(e, OSError)):
                                    raise
                        if fst["fired"]:
                            out.fault("io_error")
                            out.extra.setdefault("io_fault_sites", [])
                            out.extra["io_fault_sites"].append(fst["what"].split(" ")[0] + " " + os.path.basename(fst["what"]))
                            cls.append("fault@" + fst["what"].split(" ")[0] + ":" + os.path.basename(fst["what"]))
                            out.probe("add retried after an I/O error inside it")
                            if op.get("after_fault") == "revert" and g in model and op.get("via") != "file":
                                # instead of retrying, the caller puts the previous content back: afterwards the group is what
                                # it was, and nothing was registered in between (the failed add never returned)
                                out.probe("previous content put back after a failed add")
                                cls.append("reverted")
                                op = dict(op, members=model[g]["members"])
                                texts = [m["text"] for m in op["members"]]
                    # (the retry, or the only attempt)
                    with ops.quiet():
                        cs.paths_manager.add_named_paths(name=g, paths=texts)
                stored = _stored_text(texts)
                if g not in model:
                    model[g] = {"members": op["members"], "versions": 1, "stored": stored}
                    cls.append("first")
                elif model[g]["stored"] == stored:
                    cls.append("identical")
                    out.probe("identical re-add")
                    out.nontrivial = True
                    model[g]["members"] = op["members"]
                else:
                    cls.append("replace")
                    out.probe("replace")
                    out.nontrivial = True
                    model[g] = {"members": op["members"], "versions": model[g]["versions"] + 1, "stored": stored}
                cls += [g, len(texts), sorted({m["text"].split(":")[0].strip("~ \n") for m in op["members"] if m["ident"] is not None})]
            elif k == "remove":
                g = op["group"]
                if g not in model:
                    out.log(step, "noop")
                    continue
                if op.get("fault_at"):
                    from ..iofault import IOFault

                    with IOFault(at=op["fault_at"], under=[os.path.join("inputs", "named_paths")]) as fst:
                        try:
                            with ops.quiet():
                                cs.paths_manager.remove_named_paths(g)
                        except Exception as e:  # noqa: BLE001
                            if not fst["fired"] or (not ops.in_repo(e) and not isinstance(e, OSError)):
                                raise
                    if fst["fired"]:
                        out.fault("io_error")
                        cls.append("fault@" + fst["what"].split(" ")[0])
                        out.probe("remove retried after an I/O error inside it")
                        with ops.quiet():
                            cs.paths_manager.remove_named_paths(g)
                else:
                    with ops.quiet():
                        cs.paths_manager.remove_named_paths(g)
                del model[g]
                cls.append(g)
            elif k == "swap":
                cs, cs_alt = (cs_alt if cs_alt is not None else ops.new_csvpaths()), cs
                out.fault("instance_swap")
            else:
                cs = ops.new_csvpaths()
                out.fault("restart")
            out.sig.append(cls)
            _lookups(out, cs.paths_manager, "live", model, step)
            _lookups(out, ops.new_csvpaths().paths_manager, "fresh", model, step)
            _disk(out, model, step)
            out.log(step, cls, sorted((g, st["versions"], len(st["members"])) for g, st in model.items()), len(out.violations))
            if out.violations:
                break
        out.probe("identical re-add", False)
        out.probe("replace", False)
        out.probe("group added from a file", False)
        out.probe("add retried after an I/O error inside it", False)
        out.probe("remove retried after an I/O error inside it", False)
        out.probe("previous content put back after a failed add", False)
        out.states.append(json.dumps(sorted((g, st["versions"], [m["ident"] for m in st["members"]]) for g, st in model.items())))
        out.runs = len(sc["ops"])
        out.log("tree", W.tree_digest(("inputs",)))
    return out.done()

"""C10 - every run gets its own run directory and never touches an earlier run's.

Workload: histories of named-paths runs over {2 groups} x {new, reused instance}
x {7 run forms} under a simulated UTC clock whose value before every run is part
of the scenario (same second, +1s, minutes, 12:59->13:00, midnight, +12h exactly,
backward step), directory listings permuted.
Oracle: a model of runs (group, [invoke, return] clock interval, observed
directory) + tree hashes before/after every run + ':last'/':first' resolution."""
import datetime as _dt
import json
import os

from .. import seams, ops, world as W, diskreader as D
from .common import Out, drop_each, with_, REAL_ALL, STUB_ALL

ID = "C10"
TIERS = {"quick": {"n": 2600, "chunk": 40}, "thorough": {"n": 60000, "chunk": 150, "wall_cap": 3300}}
RULE = (
    "each scenario is a seeded history of 2-7 runs (1 in 10: 8-20; 1 in 25: a burst of 12-17 runs of one group inside one second followed by a later run; 2 in 25: two interleaved callers - a generator run obtained (and 0-3 lines pulled), another whole run performed - on the same instance too when it is of the other group -, then the generator drained) drawn from {g1,g2} x {new, reused, the other of two alternating long-lived CsvPaths} x 7 run forms, the simulated clock set before each run by a profile "
    "(same second, +1s, +minutes, to 12:59:5x/13:00:0x, to 23:59:5x/00:00:0x, +12h exactly, backward step), 0, 1 ms or 400 ms clock advance per clock read (a run can straddle second boundaries), listdir order permuted; invariants are checked after every run. "
    "Non-trivial = at least two runs of one group, or a reused instance; distinct = distinct sequences of step classes (group, new/reused, serial/by-line, collecting?, clock profile)."
)
ASSUMPTIONS = [
    "runs are sequential (the library documents CsvPaths as not for concurrent use); overlapping runs of several instances are not explored",
    "which of two runs started in the same second is ':last' is not asserted (the statement only orders different seconds)",
    "ordering and ':last' clauses are asserted only between runs not separated by a backward clock step; uniqueness and immutability are asserted always",
]
REAL = REAL_ALL
STUB = STUB_ALL

GROUPS = {"g1": ["~id:m~ $[*][ yes() ]"], "g2": ['~id:m~ $[1*][ #1 == "a" ]', "~id:k~ $[*][ @c = count() ]"], "gr": ["~id:m~ $[*][ yes() ]"]}  # gr: only run as a replay of a ':last' reference
ROWS = [["id", "h1"], ["r1", "a"], ["r2", "b"], [], ["r4", "a"]]
TARGETS = {"g1": ["g1#m", "$g1.csvpaths.m:from"], "g2": ["g2#m", "g2#k", "$g2.csvpaths.m:from", "$g2.csvpaths.m:to", "$g2.csvpaths.k:to"]}
PROFILES = ["same", "+1s", "+min", "to1259", "tomidnight", "+12h", "back", "+0.6s"]


def _apply(rng, t, prof):
    if prof == "same":
        return t
    if prof == "+1s":
        return t + _dt.timedelta(seconds=1)
    if prof == "+0.6s":
        # sub-second steps: .6 of one second, then .2 of the next
        return t + _dt.timedelta(milliseconds=600)
    if prof == "+min":
        return t + _dt.timedelta(minutes=rng.randint(1, 90), seconds=rng.randint(0, 59))
    if prof == "to1259":
        t2 = t.replace(hour=12, minute=59, second=59, microsecond=0)
        if t2 <= t:
            t2 += _dt.timedelta(days=1)
        return t2 + _dt.timedelta(seconds=rng.choice([-1, 0, 1, 2]))
    if prof == "tomidnight":
        t2 = t.replace(hour=23, minute=59, second=59, microsecond=0)
        if t2 <= t:
            t2 += _dt.timedelta(days=1)
        return t2 + _dt.timedelta(seconds=rng.choice([-1, 0, 1, 2]))
    if prof == "+12h":
        return t + _dt.timedelta(hours=12)
    if prof == "back":
        return t - _dt.timedelta(seconds=rng.choice([1, 30, 3600, 7200]))
    raise ValueError(prof)


def generate_burst(rng):
    """Many runs of (mostly) one group inside one clock second: the '.N' suffix range goes to two digits."""
    n = rng.randint(12, 17)
    t = seams.EPOCH.replace(hour=rng.choice([9, 12, 23]), minute=59, second=rng.choice([58, 59]))
    g = rng.choice(["g1", "g2"])
    steps = []
    for s in range(n):
        steps.append(
            {
                "at": seams.iso(t),
                "profile": "start" if s == 0 else "same",
                "inst": "new" if s == 0 else rng.choice(["new", "reused", "swap", "swap"]),
                "group": g if rng.random() < 0.9 else ("g2" if g == "g1" else "g1"),
                "method": rng.choice(["collect_paths", "fast_forward_paths", "collect_by_line", "next_paths_collect"]),
            }
        )
    t2 = _apply(rng, t, rng.choice(["+1s", "+min"]))
    steps.append({"at": seams.iso(t2), "profile": "+1s", "inst": "new", "group": g, "method": "collect_paths"})
    return {"seed": rng.getrandbits(32), "listdir_salt": rng.choice([None, rng.getrandbits(16)]), "step_us": 0, "steps": steps}


def generate_interleave(rng):
    """Two callers interleaved: A obtains a generator run (next_paths / next_by_line) but has not iterated it yet
    when B performs a whole run of the same group; then A iterates.  Both in one clock second or a second apart."""
    t = seams.EPOCH.replace(hour=rng.choice([9, 12, 23]), minute=59, second=rng.choice([57, 59]))
    g = rng.choice(["g1", "g2"])
    # A may also be part-way through (some lines already pulled; with the two-member group g2 its second member has
    # then not been set up yet) when B runs
    progress = rng.choice([0, 0, 1, 2, 3])
    if progress and rng.random() < 0.7:
        g = "g2"
    return {
        "kind": "interleave",
        "a_progress": progress,
        "seed": rng.getrandbits(32),
        "listdir_salt": rng.choice([None, rng.getrandbits(16)]),
        "at": seams.iso(t),
        "group": g,
        "a_method": rng.choice(["next_paths", "next_paths_collect", "next_by_line"]),
        "b_method": rng.choice(ops.METHODS),
        "b_group": g if rng.random() < (0.4 if progress else 0.8) else ("g2" if g == "g1" else "g1"),
        "b_same_instance": rng.random() < (0.6 if progress else 0.3),
        "gap_s": rng.choice([0, 0, 1]),
        # B may start a second (or more) after A: then B is the more recent run although A finishes later
        "b_delay_s": rng.choice([0, 0, 1, 5]),
        "earlier_run": rng.random() < 0.5,
        "steps": [],
    }


def generate_dst(rng):
    """Runs on both sides of the hour in which a daylight-saving zone falls back (the process's TZ is such a zone): the
    local wall clock repeats an hour, the order of the runs does not."""
    t = seams.EPOCH.replace(year=2031, month=11, day=2, hour=5, minute=rng.choice([5, 30, 55]), second=rng.choice([0, 59]))  # 01:xx EDT
    g = rng.choice(["g1", "g2"])
    steps = []
    for s, dt_min in enumerate([0] + sorted(rng.sample(range(20, 130), rng.randint(1, 3)))):
        steps.append({"at": seams.iso(t + _dt.timedelta(minutes=dt_min)), "profile": "start" if s == 0 else "+min", "inst": rng.choice(["new", "reused"]) if s else "new", "group": g if rng.random() < 0.85 else ("g2" if g == "g1" else "g1"), "method": rng.choice(["collect_paths", "collect_by_line", "next_paths_collect"])})
    return {"seed": rng.getrandbits(32), "listdir_salt": rng.choice([None, rng.getrandbits(16)]), "step_us": 0, "steps": steps, "tz": rng.choice(["EST5EDT,M3.2.0,M11.1.0", "CET-1CEST,M3.5.0,M10.5.0/3"])}


def generate(rng, i, tier):
    if i % 25 == 18:
        return generate_dst(rng)
    if i % 25 == 24:
        return generate_burst(rng)
    if i % 25 in (12, 6):
        return generate_interleave(rng)
    long = rng.random() < 0.1
    n = rng.randint(8, 20) if long else rng.randint(2, 7)
    t = seams.EPOCH.replace(hour=rng.choice([9, 11, 12, 22, 23]), minute=rng.choice([26, 58, 59]), second=rng.choice([53, 57, 58, 59]), microsecond=rng.choice([0, 0, 600000]))
    # swarm: each history enables a subset of profiles / methods
    profs = rng.sample(PROFILES, rng.randint(2, len(PROFILES)))
    if "back" in profs and rng.random() < 0.6:
        profs.remove("back")
    meths = rng.sample(ops.METHODS, rng.randint(2, len(ops.METHODS)))
    p_reuse = rng.choice([0.0, 0.3, 0.5, 0.8])
    steps = []
    for s in range(n):
        prof = "start" if s == 0 else rng.choice(profs)
        if s > 0:
            t = _apply(rng, t, prof)
        steps.append(
            {
                "at": seams.iso(t),
                "profile": prof,
                # "swap": the run goes through the OTHER of two long-lived instances that alternate over the same archive
                "inst": "new" if (s == 0 or rng.random() >= p_reuse) else rng.choice(["reused", "reused", "swap"]),
                "group": rng.choice(["g1", "g2"]),
                "method": rng.choice(meths),
            }
        )
        if s > 0 and steps[-1]["inst"] == "reused" and rng.random() < 0.2:
            # a run left unfinished on this instance just before: a generator the caller walked away from
            steps[-1]["unfinished_before"] = {"method": rng.choice(["next_paths", "next_paths_collect", "next_by_line"]), "group": rng.choice(["g1", "g2"]), "after": rng.randint(1, 2)}
        # the group may be addressed by a reference that selects members: the run still belongs to the group
        g = steps[-1]["group"]
        if rng.random() < 0.25:
            steps[-1]["target"] = rng.choice(TARGETS[g])
        if rng.random() < 0.2:
            # right afterwards (same second or later) another group is run over '$<group>.results.<year>:last.m'
            steps[-1]["replay_after"] = {"method": rng.choice(["collect_paths", "fast_forward_paths", "next_paths", "collect_by_line"]), "inst": rng.choice(["same", "new"]), "tick_s": rng.choice([0, 0, 1, 3600])}
    return {
        "seed": rng.getrandbits(32),
        "listdir_salt": rng.choice([None, rng.getrandbits(16), rng.getrandbits(16)]),
        "step_us": rng.choice([0, 0, 0, 1000, 400000]),
        "steps": steps,
    }


def reductions(sc):
    if sc.get("kind") == "interleave":
        if sc.get("earlier_run"):
            yield with_(sc, earlier_run=False)
        if sc.get("listdir_salt") is not None:
            yield with_(sc, listdir_salt=None)
        if sc["b_method"] != "collect_paths":
            yield with_(sc, b_method="collect_paths")
        if sc["gap_s"]:
            yield with_(sc, gap_s=0)
        if sc.get("a_progress", 0) > 1:
            yield with_(sc, a_progress=1)
        if sc.get("b_delay_s", 0) > 1:
            yield with_(sc, b_delay_s=1)
        return
    for cand in drop_each(sc["steps"], 1):
        yield with_(sc, steps=cand)
    if sc.get("listdir_salt") is not None:
        yield with_(sc, listdir_salt=None)
    if sc.get("step_us"):
        yield with_(sc, step_us=0)
    if sc.get("tz"):
        yield with_(sc, tz=None)
    for j, st in enumerate(sc["steps"]):
        if st["method"] != "collect_paths":
            c = with_(sc)
            c["steps"][j]["method"] = "collect_paths"
            yield c
        if st.get("unfinished_before"):
            c = with_(sc)
            del c["steps"][j]["unfinished_before"]
            yield c
        if st["inst"] in ("reused", "swap") and not st.get("unfinished_before"):
            c = with_(sc)
            c["steps"][j]["inst"] = "new"
            yield c
        if st.get("target"):
            c = with_(sc)
            del c["steps"][j]["target"]
            yield c
        if st.get("replay_after"):
            c = with_(sc)
            del c["steps"][j]["replay_after"]
            yield c
        if st["group"] != "g1" and not st.get("target"):
            c = with_(sc)
            c["steps"][j]["group"] = "g1"
            yield c


def _sec(t):
    return t.replace(microsecond=0)


def _execute_interleave(sc):
    out = Out()
    t0 = seams.parse_iso(sc["at"])
    seams.reset(sc["seed"], clock=t0, listdir_salt=sc.get("listdir_salt"))
    with W.World() as w:
        w.write_csv("src/f.csv", ROWS)
        cs_a = ops.new_csvpaths()
        with ops.quiet():
            cs_a.file_manager.add_named_file(name="f", path="src/f.csv")
            for g, ps in GROUPS.items():
                cs_a.paths_manager.add_named_paths(name=g, paths=ps)
        g = sc["group"]
        dirs = []
        if sc.get("earlier_run"):
            ops.run_group(cs_a, "collect_paths", g)
            out.runs += 1
            dirs.append(("earlier", g, ops.results_of(cs_a, g)[0].run_dir))
            seams.SimClock.advance(seconds=1)
        with ops.quiet():
            it = ops.run_iter(cs_a, sc["a_method"], g)  # A: obtained, not iterated
            for _ in range(sc.get("a_progress", 0)):
                if next(it, None) is None:
                    break
        cs_b = cs_a if sc["b_same_instance"] and sc["b_group"] != g else ops.new_csvpaths()
        if sc.get("b_delay_s"):
            seams.SimClock.advance(seconds=sc["b_delay_s"])
            out.fault("clock_forward")
        ops.run_group(cs_b, sc["b_method"], sc["b_group"])  # B: a whole run in between
        out.runs += 1
        bdir = ops.results_of(cs_b, sc["b_group"])[0].run_dir
        dirs.append(("B", sc["b_group"], bdir))
        if sc["gap_s"]:
            seams.SimClock.advance(seconds=sc["gap_s"])
        before = W.tree_hashes("archive")
        with ops.quiet():
            for _ in it:  # A iterates now
                pass
        out.runs += 1
        out.fault("interleaved_callers")
        after = W.tree_hashes("archive")
        adir = ops.results_of(cs_a, g)[0].run_dir
        where = f"A={sc['a_method']}({g}) obtained, B={sc['b_method']}({sc['b_group']}) ran ({'same' if cs_b is cs_a else 'other'} instance), then A iterated {sc['gap_s']}s later (A had pulled {sc.get('a_progress', 0)} line(s) before B)"
        if os.path.dirname(adir) != os.path.join("archive", g):
            out.v("wrong_group_dir", f"{where}: A wrote to {adir}, not under archive/{g}/", reused=False)
        for who, gg, d in dirs:
            if d == adir:
                out.v("dir_reused", f"{where}: A used run directory {adir}, already used by run {who}", reused=cs_b is cs_a, same_second=sc["gap_s"] == 0, interleaved=True)
        for p, h in before.items():
            if p != os.path.join("archive", "manifest.json") and after.get(p) != h and not p.startswith(adir + os.sep):
                out.v("earlier_run_modified", f"{where}: iterating A {'removed' if p not in after else 'changed'} {p}, a file of an earlier run", reused=cs_b is cs_a, interleaved=True)
                break
        for p in after:
            if p not in before and not p.startswith(adir + os.sep) and p != os.path.join("archive", "manifest.json"):
                out.v("wrote_outside_run_dir", f"{where}: iterating A created {p} outside its run directory {adir}", reused=cs_b is cs_a)
                break
        # ':last' / ':first' after both are done: the runs are ordered by when they STARTED (their directory names)
        if sc.get("a_progress", 0) > 0 and sc["b_group"] == g and sc.get("b_delay_s") and sc["b_method"] in ops.COLLECTING and os.path.isfile(os.path.join(bdir, "m", "data.csv")) and not sc.get("earlier_run"):
            for which, want_dir in (("last", bdir), ("first", adir)):
                want = os.path.join(want_dir, "m", "data.csv")
                if not os.path.isfile(want):
                    continue
                ref = f"${g}.results.{os.path.basename(bdir)[:4]}:{which}.m"
                try:
                    with ops.quiet():
                        got = ops.new_csvpaths().file_manager.get_named_file(ref)
                except Exception as e:  # noqa: BLE001
                    if not ops.in_repo(e):
                        raise
                    out.v(f"{which}_raises", f"{where}: {ref} raised {ops.exc_sig(e)}; expected {want}", interleaved=True)
                    continue
                out.probe(f":{which} resolved after interleaved runs")
                if got != want:
                    out.v(f"{which}_wrong", f"{where}: {ref} resolved to {got}, but the run that started {'last' if which == 'last' else 'first'} is {want_dir}", interleaved=True)
        out.sig = ["interleave", sc["a_method"], sc["b_method"], sc["b_group"] == g, cs_b is cs_a, sc["gap_s"], bool(sc.get("earlier_run")), sc.get("a_progress", 0), g]
        out.probe("a run performed on the same instance while a two-member generator run was part-way through", cs_b is cs_a and g == "g2" and sc.get("a_progress", 0) > 0)
        out.nontrivial = True
        out.probe("a run performed between obtaining and iterating a generator run of the same group", sc["b_group"] == g)
        out.log(adir, bdir, sorted(p for p in after if p not in before), len(out.violations))
    return out.done()


def execute(sc):
    if sc.get("kind") == "interleave":
        return _execute_interleave(sc)
    out = Out()
    steps = sc["steps"]
    t0 = seams.parse_iso(steps[0]["at"]) if steps else seams.EPOCH
    seams.reset(sc["seed"], clock=t0, step_us=sc.get("step_us", 0), listdir_salt=sc.get("listdir_salt"))
    if sc.get("tz"):
        # the process lives in a zone with daylight saving (the simulated clock itself stays UTC)
        old_tz = os.environ.get("TZ")
        os.environ["TZ"] = sc["tz"]
        seams.REAL_TIME.tzset()
        out.fault("tz_with_dst")
        try:
            return _execute_history(sc, out, steps)
        finally:
            if old_tz is None:
                os.environ.pop("TZ", None)
            else:
                os.environ["TZ"] = old_tz
            seams.REAL_TIME.tzset()
    return _execute_history(sc, out, steps)


def _execute_history(sc, out, steps):
    with W.World() as w:
        w.write_csv("src/f.csv", ROWS)
        cs = ops.new_csvpaths()
        with ops.quiet():
            cs.file_manager.add_named_file(name="f", path="src/f.csv")
            for g, ps in GROUPS.items():
                cs.paths_manager.add_named_paths(name=g, paths=ps)
        cs_alt = None  # the other of two long-lived instances (see "swap")
        runs = []  # dicts: group, invoke, ret, dir, data(bool), epoch, idx
        abandoned = set()  # run directories of unfinished runs: their spoolers are flushed whenever the garbage collector gets to them
        epoch = 0
        prev_cls = None
        pairs = []
        for idx, st in enumerate(steps):
            at = seams.parse_iso(st["at"])
            if at < seams.SimClock.peek() and st["profile"] != "back":
                # the clock advanced while the previous run was executing: only a 'back' step may move it backwards
                at = seams.SimClock.peek()
            if at < seams.SimClock.peek():
                epoch += 1
                out.fault("clock_back")
            elif at > seams.SimClock.peek():
                out.fault("clock_forward")
            seams.SimClock.set(at)
            if st["inst"] == "new":
                cs = ops.new_csvpaths()
                if idx:
                    out.fault("restart")
            elif st["inst"] == "swap":
                cs, cs_alt = (cs_alt if cs_alt is not None else ops.new_csvpaths()), cs
                out.fault("instance_swap")
                out.probe("two long-lived instances alternating over one archive")
            else:
                out.fault("instance_reuse")
            g, meth = st["group"], st["method"]
            pathsname = st.get("target") or g
            if st.get("target"):
                out.probe("group addressed through a member reference")
            cls = (g, st["inst"], "byline" if meth in ops.BYLINE else "serial", st["profile"])
            out.sig.append(list(cls) + [meth in ops.COLLECTING])
            if prev_cls is not None:
                pairs.append(f"{prev_cls}>{cls}")
            prev_cls = cls
            ub = st.get("unfinished_before")
            if ub:
                try:
                    got_ub = ops.run_group(cs, ub["method"], ub["group"], stop_after=ub["after"])
                    if got_ub is not None and len(got_ub) >= ub["after"]:
                        out.fault("cancel")
                        out.probe("run right after an unfinished run on the same instance")
                        try:
                            ad = ops.results_of(cs, ub["group"])[0].run_dir
                            abandoned.add(ad)
                            # it is a run like any other for naming purposes: it owns a directory and a second
                            runs.append({"group": ub["group"], "invoke": seams.SimClock.peek(), "ret": seams.SimClock.peek(), "dir": ad, "data": None, "epoch": epoch, "idx": f"{idx}-unfinished", "abandoned": True})
                        except Exception:  # noqa: BLE001
                            pass
                except Exception as e:  # noqa: BLE001
                    if not ops.in_repo(e):
                        raise
            before = W.tree_hashes("archive")
            invoke = seams.SimClock.peek()
            ops.run_group(cs, meth, pathsname)
            out.runs += 1
            ret = seams.SimClock.peek()
            after = W.tree_hashes("archive")
            try:
                d = ops.results_of(cs, pathsname)[0].run_dir
            except Exception as e:  # noqa: BLE001
                out.v("no_results", f"run {idx}: results of {g} not available after the run: {ops.exc_sig(e)}")
                break
            where = f"run {idx} ({pathsname}, {st['inst']} instance, {meth}, clock {st['at']} [{st['profile']}])"
            # (1) under its own group
            if os.path.dirname(d) != os.path.join("archive", g):
                out.v("wrong_group_dir", f"{where} wrote to {d}, not under archive/{g}/", reused=st["inst"] == "reused")
            # (2) directory never used before
            for r in runs:
                if r["dir"] == d:
                    out.v("dir_reused", f"{where} used run directory {d}, already used by run {r['idx']}", reused=st["inst"] == "reused", same_second=_sec(r["ret"]) == _sec(invoke))
                    break
            # (3) earlier files untouched; new files only under own dir
            for p, h in before.items():
                if p == os.path.join("archive", "manifest.json"):
                    continue
                if any(p.startswith(a + os.sep) for a in abandoned) and os.path.basename(p) == "data.csv":
                    continue
                if after.get(p) != h:
                    out.v("earlier_run_modified", f"{where} {'removed' if p not in after else 'changed'} {p}, a file of an earlier run", reused=st["inst"] == "reused")
                    break
            for p in after:
                if p not in before and not p.startswith(d + os.sep) and p != os.path.join("archive", "manifest.json"):
                    out.v("wrote_outside_run_dir", f"{where} created {p} outside its run directory {d}", reused=st["inst"] == "reused")
                    break
            if not any(p.startswith(d + os.sep) for p in after if p not in before):
                out.v("nothing_written", f"{where} created no file under its run directory {d}", reused=st["inst"] == "reused")
            name = os.path.basename(d)
            # (4) chronological order by name, different seconds, same epoch, same group
            for r in runs:
                if r["group"] != g or r["epoch"] != epoch or r["dir"] == d:
                    continue
                if _sec(r["ret"]) < _sec(invoke):
                    out.probe("ordered pair compared")
                    if not os.path.basename(r["dir"]) < name:
                        out.v(
                            "name_order",
                            f"{where}: earlier run {r['idx']} (clock {seams.iso(r['invoke'])}) has directory {os.path.basename(r['dir'])} which does not sort before {name}",
                            crosses_noon=r["invoke"].hour < 13 <= invoke.hour or r["invoke"].date() != invoke.date(),
                        )
                        break
            has_data = os.path.isfile(os.path.join(d, "m", "data.csv"))
            runs.append({"group": g, "invoke": invoke, "ret": ret, "dir": d, "data": has_data, "epoch": epoch, "idx": idx})
            if len(runs) >= 2 and _sec(runs[-2]["ret"]) == _sec(invoke):
                out.probe("two runs in one second")
                if st["inst"] == "reused":
                    out.probe("two runs in one second, reused instance")
            same = [r for r in runs if r["group"] == g and _sec(r["invoke"]) == _sec(invoke)]
            if len(same) >= 12:
                out.probe("12 or more runs of one group in one second")
            if len(runs) >= 2 and runs[-2]["invoke"].hour == 12 and invoke.hour == 13:
                out.probe("12:59 -> 13:00")
            if len(runs) >= 2 and runs[-2]["invoke"].date() != invoke.date():
                out.probe("across midnight")
            if len(runs) >= 2 and invoke - runs[-2]["invoke"] == _dt.timedelta(hours=12):
                out.probe("exactly 12h apart")
            # (5) :last / :first
            mine = [r for r in runs if r["group"] == g]
            for pref in sorted({"", name[:4], name[:10], name[:13], name[:19]}):  # "": the bare form $g.results.:last.<id>
                cand = [r for r in mine if os.path.basename(r["dir"]).startswith(pref)]
                if not cand or len({r["epoch"] for r in cand}) != 1:
                    continue
                for which in ("last", "first"):
                    if which == "last":
                        top = [r for r in cand if all(x is r or _sec(x["ret"]) < _sec(r["invoke"]) for x in cand)]
                    else:
                        top = [r for r in cand if all(x is r or _sec(r["ret"]) < _sec(x["invoke"]) for x in cand)]
                    if len(top) != 1 or top[0].get("abandoned"):
                        continue
                    ref = f"${g}.results.{pref}:{which}.m"
                    if not top[0]["data"]:
                        # the most recent (earliest) run kept no data: the reference may fail, but must not quietly hand out another run's data
                        try:
                            with ops.quiet():
                                got = cs.file_manager.get_named_file(ref)
                        except Exception:  # noqa: BLE001
                            continue
                        out.probe(f":{which} onto a run without data")
                        if got and not got.startswith(top[0]["dir"] + os.sep):
                            out.v(
                                f"{which}_wrong",
                                f"{where}: {ref} resolved to {got}, but the {'most recent' if which == 'last' else 'earliest'} matching run is run {top[0]['idx']} in {top[0]['dir']} (which kept no data for m)",
                                n_candidates=len(cand),
                                top_has_no_data=True,
                            )
                        continue
                    want = os.path.join(top[0]["dir"], "m", "data.csv")
                    out.probe(f":{which} resolved")
                    try:
                        with ops.quiet():
                            got = cs.file_manager.get_named_file(ref)
                    except Exception as e:  # noqa: BLE001
                        out.v(f"{which}_raises", f"{where}: {ref} raised {ops.exc_sig(e)}; expected {want}")
                        continue
                    if got != want:
                        out.v(
                            f"{which}_wrong",
                            f"{where}: {ref} resolved to {got}, but the {'most recent' if which == 'last' else 'earliest'} matching run is run {top[0]['idx']} at {want}",
                            n_candidates=len(cand),
                        )
            rp = st.get("replay_after")
            cand = [r for r in mine if os.path.basename(r["dir"]).startswith(name[:4])]
            top = [r for r in cand if all(x is r or _sec(x["ret"]) < _sec(r["invoke"]) for x in cand)]
            if rp and not out.violations and len({r["epoch"] for r in cand}) == 1 and len(top) == 1 and top[0]["data"] and not top[0].get("abandoned"):
                # (6) the reference used as the input of another group's run - possibly in the very second of the referenced run
                ref = f"${g}.results.{name[:4]}:last.m"
                want = os.path.join(top[0]["dir"], "m", "data.csv")
                if rp["tick_s"]:
                    seams.SimClock.advance(seconds=rp["tick_s"])
                cs2 = cs if rp["inst"] == "same" else ops.new_csvpaths()
                before2 = W.tree_hashes("archive")
                inv2 = seams.SimClock.peek()
                rwhere = f"{where}, then gr run by {rp['method']} over {ref} on {'the same' if cs2 is cs else 'a new'} instance {rp['tick_s']}s later"
                try:
                    ops.run_group(cs2, rp["method"], "gr", fname=ref)
                    rd = ops.results_of(cs2, "gr")[0].run_dir
                except Exception as e:  # noqa: BLE001
                    if not ops.in_repo(e):
                        raise
                    out.v("last_raises", f"{rwhere}: raised {ops.exc_sig(e)}; expected it to read {want}", replay=True)
                    break
                out.runs += 1
                out.probe("':last' used as the input of another group's run in the second of the referenced run", _sec(inv2) == _sec(top[0]["invoke"]))
                after2 = W.tree_hashes("archive")
                try:
                    mm = D.read_json(os.path.join(rd, "m", "manifest.json"))
                except D.ReadError as e:
                    mm = {}
                    out.v("replay_manifest_unreadable", f"{rwhere}: {e}")
                if mm.get("actual_data_file") != want:
                    out.v("last_wrong", f"{rwhere}: the run's manifest says it read {mm.get('actual_data_file')!r}, the most recent matching run's data is {want}", replay=True)
                if os.path.dirname(rd) != os.path.join("archive", "gr"):
                    out.v("wrong_group_dir", f"{rwhere} wrote to {rd}, not under archive/gr/", reused=cs2 is cs)
                if any(r["dir"] == rd for r in runs):
                    out.v("dir_reused", f"{rwhere} used run directory {rd}, already used", reused=cs2 is cs, same_second=True)
                for pth, h in before2.items():
                    if pth != os.path.join("archive", "manifest.json") and after2.get(pth) != h and not (any(pth.startswith(a + os.sep) for a in abandoned) and os.path.basename(pth) == "data.csv"):
                        out.v("earlier_run_modified", f"{rwhere} {'removed' if pth not in after2 else 'changed'} {pth}, a file of an earlier run", reused=cs2 is cs)
                        break
                for pth in after2:
                    if pth not in before2 and not pth.startswith(rd + os.sep) and pth != os.path.join("archive", "manifest.json"):
                        out.v("wrote_outside_run_dir", f"{rwhere} created {pth} outside its run directory {rd}", reused=cs2 is cs)
                        break
                runs.append({"group": "gr", "invoke": inv2, "ret": seams.SimClock.peek(), "dir": rd, "data": None, "epoch": epoch, "idx": f"{idx}-replay"})
                if cs2 is not cs:
                    cs = cs2
            out.log(idx, list(cls), d, sorted(p for p in after if p not in before and not any(p.startswith(a + os.sep) for a in abandoned)), len(out.violations), runs[-1]["dir"])
            if out.violations:
                break
        for pr in ("run right after an unfinished run on the same instance", "12 or more runs of one group in one second", "group addressed through a member reference", "two runs in one second", "two runs in one second, reused instance", "12:59 -> 13:00", "across midnight", "exactly 12h apart", "ordered pair compared", ":last resolved", ":first resolved", "two long-lived instances alternating over one archive", "':last' used as the input of another group's run in the second of the referenced run"):
            out.probe(pr, False)
        out.nontrivial = len([r for r in runs if not r.get("abandoned")]) >= 2
        out.extra["step_class_pairs"] = pairs
        out.states.append(json.dumps(sorted((r["group"], os.path.basename(r["dir"])) for r in runs)))
        # (files of unfinished runs are left out of the digest: their spoolers are flushed when the garbage collector gets to them)
        out.log("tree", sorted((p, h) for p, h in W.tree_hashes("archive").items() if not any(p.startswith(a + os.sep) for a in abandoned)))
    return out.done()

"""C05 - errors in match components are handled exactly as the error policy says.

Fault injection: each member carries one erroring component that raises on
exactly a planted line set (nine error kinds: exception in _decide_match, in
_produce_value, argument-type mismatch, a function's own rule, a Python
arithmetic exception, an error on the right of '->', an error inside not()).
Configuration: every subset of {raise, collect, stop, fail, print, quiet}
(stratified: every policy x kind cell in every batch), standalone CsvPath (Config
object) or a CsvPaths run (config.ini) with any of the seven run forms, and
per-member validation-mode overrides.  Oracle: a flag-table reference model of
the two schedules."""
import json

from .. import seams, ops, extfuncs, world as W
from .common import Out, with_, REAL_ALL, STUB_ALL

ID = "C05"
TIERS = {"quick": {"n": 14400, "chunk": 192}, "thorough": {"n": 460800, "chunk": 576, "wall_cap": 3300}}
FLAGS = ["raise", "collect", "stop", "fail", "print", "quiet"]
KINDS = ["exc_match", "exc_value", "arg_type", "rule", "py_exc", "nested_when", "nested_not", "arg_match", "rule_in_or"]
DATA_DRIVEN = {"arg_type", "rule", "py_exc", "nested_when", "arg_match", "rule_in_or"}
RULE = (
    "scenario i takes policy subset (i mod 64) and error kind ((i div 64) mod 9), so each of the 576 cells is visited n/448 times per batch; within a cell the planted line set (first/last scanned line, header record, "
    "after a blank, adjacent pairs, several lines), scan window, blank records, standalone vs managed (7 run forms), group size 1-2 and a validation-mode override on one member are random. "
    "Non-trivial = at least one planted line was evaluated; distinct = (policy, kind, mode/method, position classes of the planted lines, override)."
)
ASSUMPTIONS = [
    "the number of error records per offending line is not asserted (a nested error legitimately yields two; a re-raise through CsvPaths adds a wrapper record): the *set of line numbers* is",
    "what validation-mode 'match' makes the offending line do is not asserted beyond the statement ('unless validation-mode says match')",
    "the empty policy cannot be written in config.ini (validate_config rejects it) and is explored through a Config object on a standalone CsvPath only",
    "print is observed on a TestPrinter (standalone) / Result.printouts (managed); quiet must change nothing that is observable here",
]
REAL = REAL_ALL
STUB = STUB_ALL

OVERRIDES = ["raise", "no-raise", "stop", "no-stop", "fail", "no-fail", "print", "no-print", "match", "no-match", "stop,match", "fail,no-print", "no-stop,no-fail", "raise,no-print", "no-raise,stop,fail"]
# components of the template always vote 'match' on a clean line, except not(simfault()) which votes no
MATCH_MODE_HONOURED = {"exc_value", "arg_type", "py_exc", "nested_when", "arg_match", "nested_not"}  # rule_in_or: not measured, not asserted
CLEAN_LINE_MATCHES = {"rule_in_or": True, "arg_match": True, "exc_match": True, "exc_value": True, "arg_type": True, "rule": True, "py_exc": True, "nested_when": True, "nested_not": False}


def provoker(kind, j, deco=None):
    if deco == "empty_term":
        # the same provokers with an empty-string term somewhere in the erroring subtree
        # (the error context of a handled error is the JSON of that subtree)
        return {
            "exc_match": 'simfault("s")',
            "exc_value": '@v = simfaultv("s")',
            "arg_type": f'@s = add(#n{j}, length(""))',
            "rule": f'date(#w{j}, "%Y")',
            "py_exc": f'@t = mod(#n{j}, add(#z{j}, length("")))',
            "nested_when": f'yes() -> @x = add(#n{j}, length(""))',
            "nested_not": 'not(simfault("s"))',
            "arg_match": f'between(#n{j}, length(""), 99)',
            "rule_in_or": f"or(boolean(#b{j}), boolean(#b{j}))",
        }[kind]
    return {
        "exc_match": 'simfault("s")',
        "exc_value": '@v = simfaultv("s")',
        "arg_type": f"@s = add(#n{j}, 1)",
        "rule": f'date(#w{j}, "%Y")',
        "py_exc": f"@t = mod(#n{j}, #z{j})",
        "nested_when": f"yes() -> @x = add(#n{j}, 1)",
        "nested_not": 'not(simfault("s"))',
        "arg_match": f"between(#n{j}, 0, 99)",  # a function in match position: evaluated through matches(), not to_value()
        "rule_in_or": f"or(boolean(#b{j}), boolean(#b{j}))",  # rule violations of or()'s options are parked and surfaced by or() itself
    }[kind]


def generate(rng, i, tier):
    pol = [f for b, f in enumerate(FLAGS) if (i % 64) >> b & 1]
    kind = KINDS[(i // 64) % len(KINDS)]
    nrec = rng.randint(2, 9)
    blanks = sorted(l for l in range(1, nrec) if rng.random() < 0.15)
    lines = [l for l in range(nrec) if l not in blanks]
    scan_kind = rng.choice(["*", "*", "N*", "a-b"])
    if scan_kind == "*":
        scan = "*"
        inc = list(range(nrec))
    elif scan_kind == "N*":
        a = rng.randint(0, max(0, nrec - 2))
        scan = f"{a}*"
        inc = list(range(a, nrec))
    else:
        a = rng.randint(0, max(0, nrec - 2))
        b = rng.randint(a + 1, nrec)
        scan = f"{a}-{b}"
        inc = list(range(a, b + 1))
    if kind == "rule" and 0 in inc:
        # date() does not object to the header record: keep line 0 out of the window
        if scan == "*":
            scan = "1*"
        elif scan.endswith("*"):
            scan = f"{max(1, int(scan[:-1]))}*"
        else:
            a, b = scan.split("-")
            scan = f"1-{max(2, int(b))}"
        inc = [l for l in inc if l >= 1] + ([2] if "-" in scan else [])
    managed = bool(pol) and rng.random() < 0.6
    # logic-mode OR with the provoker as the ONLY component: an erroring line must still not match
    or_single = (not managed) and ("raise" not in pol) and ("stop" not in pol) and rng.random() < 0.2
    k = rng.choice([1, 1, 2]) if managed else 1
    cand = [l for l in lines if l in inc and (l >= 1 or kind not in DATA_DRIVEN)]
    planted = []
    for j in range(k):
        F = set()
        if cand:
            style = rng.choice(["first", "last", "one", "pair", "several", "after_blank", "none"])
            if style == "first":
                F = {cand[0]}
            elif style == "last":
                F = {cand[-1]}
            elif style == "one":
                F = {rng.choice(cand)}
            elif style == "pair" and len(cand) >= 2:
                p = rng.randrange(len(cand) - 1)
                F = {cand[p], cand[p + 1]}
            elif style == "several":
                F = set(rng.sample(cand, rng.randint(1, min(3, len(cand)))))
            elif style == "after_blank":
                ab = [l for l in cand if (l - 1) in blanks]
                F = {rng.choice(ab)} if ab else {rng.choice(cand)}
            elif style == "none" and rng.random() < 0.5:
                F = set()
            else:
                F = {rng.choice(cand)}
        planted.append(sorted(F))
    override = None
    if not or_single and rng.random() < (0.5 if managed else 0.35):
        # the match/no-match overrides interact with every other flag: give them a third of the weight
        val = rng.choice(["match", "no-match", "stop,match", "no-match,fail"]) if rng.random() < 0.35 else rng.choice(OVERRIDES)
        override = {"member": rng.randrange(k), "value": val}
    # standalone: another CsvPath that SHARES this run's Config object runs first, with an override that contradicts the policy
    pre_shared = rng.choice(["no-raise,no-stop,no-fail,no-print", "raise", "print,fail", "stop", "no-print", "fail,stop"]) if (not managed and rng.random() < 0.25) else None
    # managed: the erroring component lives in another named-paths group and is pulled in with import()
    via_import = bool(managed and rng.random() < 0.15)
    if or_single:
        pre_shared = None
    tail = None
    if cand and rng.random() < 0.3 and not or_single:
        # a stop() or skip() later on some line: errors already raised on that line must still be handled
        allF = sorted({l for F in planted for l in F})
        tl = rng.choice(allF) if (allF and rng.random() < 0.7) else rng.choice(cand)
        tail = {"kind": rng.choice(["stop", "skip"]), "line": tl}
    # a SECOND erroring top-level component on the same offending lines: each error is one error (record, message)
    double = (not or_single) and (not via_import) and rng.random() < 0.2
    return {
        "seed": rng.getrandbits(32),
        "policy": pol,
        "double": double,
        "factory": (not managed) and rng.random() < 0.25,
        "late_policy": (not managed) and ("raise" not in pol) and rng.random() < 0.2,
        "deco": "empty_term" if rng.random() < 0.2 else None,
        "pre_shared": pre_shared,
        "via_import": via_import,
        "or_single": or_single,
        "tail": tail,
        "kind": kind,
        "nrec": nrec,
        "blanks": blanks,
        "scan": scan,
        "planted": planted,
        "managed": managed,
        "method": rng.choice(ops.METHODS) if managed else None,
        "entry": rng.choice(["collect", "next", "fast_forward"]),
        "override": override,
    }


def reductions(sc):
    if len(sc["planted"]) > 1:
        for j in range(len(sc["planted"])):
            c = with_(sc)
            del c["planted"][j]
            if c["override"] and c["override"]["member"] >= len(c["planted"]):
                c["override"] = None
            yield c
    if sc["override"]:
        yield with_(sc, override=None)
    if sc.get("tail"):
        yield with_(sc, tail=None)
    if sc.get("deco"):
        yield with_(sc, deco=None)
    if sc.get("pre_shared"):
        yield with_(sc, pre_shared=None)
    if sc.get("via_import"):
        yield with_(sc, via_import=False)
    if sc.get("or_single"):
        yield with_(sc, or_single=False)
    if sc.get("double"):
        yield with_(sc, double=False)
    if sc.get("factory"):
        yield with_(sc, factory=False)
    if sc.get("late_policy"):
        yield with_(sc, late_policy=False)
    for j, F in enumerate(sc["planted"]):
        for l in F:
            c = with_(sc)
            c["planted"][j] = [x for x in F if x != l]
            yield c
    if sc["blanks"]:
        yield with_(sc, blanks=[])
    if sc["scan"] not in ("*", "1*"):
        yield with_(sc, scan="1*" if sc["kind"] == "rule" else "*")
    if sc["managed"] and sc["method"] != "collect_paths":
        yield with_(sc, method="collect_paths")
    if sc["nrec"] > 2:
        c = with_(sc, nrec=sc["nrec"] - 1)
        c["planted"] = [[l for l in F if l < c["nrec"]] for F in c["planted"]]
        c["blanks"] = [l for l in c["blanks"] if l < c["nrec"]]
        yield c
    for f in sc["policy"]:
        if f in ("quiet", "print", "collect"):
            yield with_(sc, policy=[x for x in sc["policy"] if x != f])


def scanned(sc):
    n = sc["nrec"]
    s = sc["scan"]
    if s == "*":
        inc = range(n)
    elif s.endswith("*"):
        inc = range(int(s[:-1]), n)
    else:
        a, b = s.split("-")
        inc = range(int(a), int(b) + 1)
    return [l for l in inc if l < n and l not in sc["blanks"]]


def effective(policy, override):
    P = {f: (f in policy) for f in ("raise", "collect", "stop", "fail", "print")}
    match = False
    for v in (override.split(",") if override else []):
        v = v.strip()
        if v == "match":
            match = True
        elif v == "no-match":
            match = False
        elif v.startswith("no-"):
            P[v[3:]] = False
        else:
            P[v] = True
    return P, match


def bad_lines(sc, j):
    F = set(sc["planted"][j])
    if sc["kind"] in DATA_DRIVEN and sc["kind"] != "rule":
        F.add(0)  # the header record never satisfies a numeric expectation
    return F


def model(sc):
    """Reference model: which lines each member evaluates, where the run aborts."""
    k = len(sc["planted"])
    S = scanned(sc)
    flags = []
    for j in range(k):
        ov = sc["override"]["value"] if sc["override"] and sc["override"]["member"] == j else None
        flags.append(effective(sc["policy"], ov))
    exp = [{"evaluated": [], "started": False, "err_lines": set(), "valid": True, "printed": False, "raised": False, "match": flags[j][1]} for j in range(k)]
    aborted = False

    def visit(j, l):
        nonlocal aborted
        P, _ = flags[j]
        e = exp[j]
        e["evaluated"].append(l)
        if l in bad_lines(sc, j):
            if P["collect"]:
                e["err_lines"].add(l)
            if P["fail"]:
                e["valid"] = False
            if P["print"]:
                e["printed"] = True
                e["print_count"] = e.get("print_count", 0) + 1
            if P["stop"]:
                e["stopped"] = True
            if P["raise"]:
                e["raised"] = True
                aborted = True
        t = sc.get("tail")
        if t and t["line"] == l and t["kind"] == "stop":
            e["stopped"] = True

    byline = sc["managed"] and sc["method"] in ops.BYLINE
    if byline:
        for e in exp:
            e["started"] = True
        for l in range(sc["nrec"]):
            if l in sc["blanks"]:
                continue
            for j in range(k):
                if exp[j].get("stopped") or l not in S:
                    continue
                visit(j, l)
                if l == S[-1]:
                    exp[j]["stopped"] = True
                if aborted:
                    break
            if aborted:
                break
    else:
        for j in range(k):
            exp[j]["started"] = True
            for l in S:
                visit(j, l)
                if aborted or exp[j].get("stopped"):
                    break
            if aborted:
                break
    return exp, aborted


def build_rows(sc):
    k = len(sc["planted"])
    hdr = ["id"]
    for j in range(k):
        hdr += [f"n{j}", f"w{j}", f"z{j}", f"b{j}"]
    rows = [hdr]
    for l in range(1, sc["nrec"]):
        if l in sc["blanks"]:
            rows.append([])
            continue
        r = [f"r{l}"]
        for j in range(k):
            bad = l in sc["planted"][j]
            kind = sc["kind"]
            n = "zz" if bad and kind in ("arg_type", "nested_when", "arg_match") else str((l * 7 + j) % 9 + 1)
            wv = "nope" if bad and kind == "rule" else "2024"
            z = "0" if bad and kind == "py_exc" else "3"
            b = "maybe" if bad and kind == "rule_in_or" else "true"
            r += [n, wv, z, b]
        rows.append(r)
    return rows


def member_text(sc, j, file=""):
    ov = sc["override"]
    head = f"id:m{j}"
    if ov and ov["member"] == j:
        head += f" validation-mode:{ov['value']}"
    if sc.get("or_single"):
        return f'~{head} logic-mode:OR~ ${file}[{sc["scan"]}][ {provoker(sc["kind"], j, sc.get("deco"))} ]'
    t = sc.get("tail")
    tail = f" line_number() == {t['line']} -> {t['kind']}()" if t else ""
    prov = f'import("lib{j}")' if sc.get("via_import") else provoker(sc["kind"], j, sc.get("deco"))
    if sc.get("double"):
        prov += ' simfault("s2")'
    return f'~{head}~ ${file}[{sc["scan"]}][ push("pre", line_number()) {prov}{tail} push("post", line_number()) ]'


def lib_text(sc, j):
    return f'$[*][ {provoker(sc["kind"], j, sc.get("deco"))} ]'


def execute(sc):
    from csvpath.util.config import Config
    from csvpath.util.printer import TestPrinter
    from ..sim import CsvPath

    out = Out()
    seams.reset(sc["seed"])
    k = len(sc["planted"])
    exp, aborted = model(sc)
    plan = [(f"m{j}", l, "s") for j in range(k) for l in sc["planted"][j]]
    if sc.get("double"):
        plan += [(f"m{j}", l, "s2") for j in range(k) for l in sc["planted"][j]]
    facts = {"kind": sc["kind"], "managed": sc["managed"], "quiet": "quiet" in sc["policy"], "override": sc["override"]["value"] if sc["override"] else None}
    with W.World(csvpath_policy=sc["policy"] or ["collect"]) as w:
        w.write_csv("src/f.csv", build_rows(sc))
        extfuncs.arm(plan=plan)
        got = []
        raised = None
        if not sc["managed"]:
            cfg = Config()
            cfg.csvpath_errors_policy = list(sc["policy"])
            if sc.get("pre_shared"):
                pre_sc = dict(sc, override={"member": 0, "value": sc["pre_shared"]}, tail=None)
                try:
                    with ops.quiet():
                        CsvPath(config=cfg).fast_forward(member_text(pre_sc, 0, "src/f.csv"))
                except Exception as e:  # noqa: BLE001
                    if not ops.in_repo(e):
                        raise
                out.runs += 1
                out.probe("an earlier CsvPath sharing the Config object ran with a contradicting override")
                extfuncs.arm(plan=plan)
            with ops.quiet():
                if sc.get("factory") and sc["policy"] and not sc.get("pre_shared"):
                    # a CsvPath handed out by the public CsvPaths.csvpath() factory and run directly (it knows its CsvPaths,
                    # but no Result collects for it); the policy is the one in config.ini
                    cp = ops.new_csvpaths().csvpath()
                    out.probe("CsvPath from the CsvPaths.csvpath() factory run directly")
                elif sc.get("late_policy") and not sc.get("pre_shared"):
                    # the instance is created while config.ini says "raise, ..."; the caller then narrows the policy on the
                    # instance's own Config (the public setter) before the run: what counts is the policy at run time
                    w.write_config(csvpath_policy=["raise"] + [f for f in sc["policy"] if f != "raise"])
                    cp = CsvPath()
                    cp.config.csvpath_errors_policy = list(sc["policy"])
                    out.probe("policy narrowed on the instance after it was created under a policy with raise")
                else:
                    cp = CsvPath(config=cfg)
            tp = TestPrinter()
            cp.add_printer(tp)
            text = member_text(sc, 0, "src/f.csv")
            lines = None
            try:
                with ops.quiet():
                    if sc["entry"] == "collect":
                        lines = [list(x) for x in cp.collect(text)]
                    elif sc["entry"] == "next":
                        lines = [list(x) for x in cp.next(text)]
                    else:
                        cp.fast_forward(text)
            except Exception as e:  # noqa: BLE001
                raised = e
            out.runs += 1
            got.append({"cp": cp, "printed": list(tp.lines), "errors": list(cp.errors or []), "lines": lines})
            how = f"standalone {sc['entry']}()"
        else:
            cs = ops.new_csvpaths()
            with ops.quiet():
                cs.file_manager.add_named_file(name="f", path="src/f.csv")
                cs.paths_manager.add_named_paths(name="g", paths=[member_text(sc, j) for j in range(k)])
                if sc.get("via_import"):
                    for j in range(k):
                        cs.paths_manager.add_named_paths(name=f"lib{j}", paths=[lib_text(sc, j)])
            try:
                ops.run_group(cs, sc["method"], "g")
            except Exception as e:  # noqa: BLE001
                raised = e
            out.runs += 1
            try:
                rs = ops.results_of(cs, "g")
            except Exception:  # noqa: BLE001
                rs = []
            for r in rs:
                lines = ops.result_lines(r) if sc["method"] in ops.COLLECTING else None
                got.append({"cp": r.csvpath, "printed": list(r.printouts), "errors": list(r.errors), "lines": lines})
            how = sc["method"]
        for kind_, ident, l, site in extfuncs.FaultState.fired:
            out.fault(kind_)
        where = f"policy {sc['policy']} kind {sc['kind']} {how}" + (f" tail {sc['tail']['kind']}@{sc['tail']['line']}" if sc.get("tail") else "") + (f" override m{sc['override']['member']}:{sc['override']['value']}" if sc["override"] else "")
        # exception reaches the caller iff raise
        if raised is not None and not ops.in_repo(raised) and not isinstance(raised, Exception):
            raise raised
        if (raised is not None) != aborted:
            if raised is not None:
                out.v("raised_without_raise", f"{where}: {ops.exc_sig(raised)} reached the caller but no evaluated offending line has 'raise' in effect", exc=type(raised).__name__, **facts)
            else:
                out.v("raise_swallowed", f"{where}: 'raise' in effect on an evaluated offending line but no exception reached the caller", **facts)
        evaluated_any = False
        for j, e in enumerate(exp):
            if not e["started"]:
                continue
            if j >= len(got):
                out.v("member_missing", f"{where}: member m{j} started in the model but has no result", **facts)
                continue
            g = got[j]
            cp = g["cp"]
            mw = f"{where} member m{j} planted {sc['planted'][j]} scan {sc['scan']} blanks {sc['blanks']}"
            pre = list(cp.variables.get("pre") or [])
            if sc.get("or_single"):
                pre = list(e["evaluated"])  # no bookkeeping components in this template: the evaluated lines are taken from the model
            bad = bad_lines(sc, j)
            hit = [l for l in e["evaluated"] if l in bad]
            if hit:
                evaluated_any = True
                if sc["kind"] in DATA_DRIVEN:
                    out.fault(sc["kind"], len(hit))
            if pre != e["evaluated"]:
                after = [l for l in pre if e["evaluated"] and l > e["evaluated"][-1]]
                out.v(
                    "stop_semantics" if after or len(pre) < len(e["evaluated"]) else "evaluated_lines",
                    f"{mw}: lines evaluated {pre}, expected {e['evaluated']} (run must {'stop at' if e.get('stopped') or e['raised'] else 'continue past'} the offending line)",
                    continued=bool(after),
                    **facts,
                )
            errl = sorted({x.line_count for x in g["errors"]})
            if errl != sorted(e["err_lines"]):
                out.v(
                    "collect_semantics",
                    f"{mw}: error records for lines {errl}, expected {sorted(e['err_lines'])} ('collect' {'in' if 'collect' in sc['policy'] else 'not in'} policy)",
                    extra=bool(set(errl) - e["err_lines"]),
                    **facts,
                )
            if sc.get("double"):
                P2, _ = effective(sc["policy"], sc["override"]["value"] if sc["override"] and sc["override"]["member"] == j else None)
                twice = sorted({l for kd, ident, l, site in extfuncs.FaultState.fired if site == "s2" and ident == f"m{j}" and l in bad})
                if twice:
                    out.probe("two components raised on the same line")
                if not P2["raise"]:
                    for l in twice:
                        nrec_l = sum(1 for x in g["errors"] if x.line_count == l)
                        if P2["collect"] and nrec_l < 2:
                            out.v("collect_semantics", f"{mw}: two components raised on line {l} but {nrec_l} error record(s) carry that line number: {ops.norm_errors(g['errors'])!r:.300}", per_error=True, **facts)
                            break
                    if P2["print"] and len(g["printed"]) < e.get("print_count", 0) + len(twice):
                        out.v("print_semantics", f"{mw}: {e.get('print_count', 0)} + {len(twice)} errors were raised with 'print' in effect but the printers received {len(g['printed'])} message(s)", per_error=True, **facts)
            if cp.is_valid != e["valid"]:
                out.v("fail_semantics", f"{mw}: is_valid={cp.is_valid}, expected {e['valid']}", **facts)
            if bool(g["printed"]) != e["printed"]:
                out.v("print_semantics", f"{mw}: printers received {g['printed']!r:.200}, expected {'some' if e['printed'] else 'no'} output", **facts)
            elif len(g["printed"]) < e.get("print_count", 0):
                # one message per handled error: several offending lines may well produce the very same text
                out.v("print_semantics", f"{mw}: {e['print_count']} offending lines were evaluated with 'print' in effect but the printers received only {len(g['printed'])} message(s): {g['printed']!r:.200}", per_error=True, **facts)
            if g["lines"] is not None:
                ret = [int(l[0][1:]) if l and l[0].startswith("r") else 0 for l in g["lines"]]
                ret_has_header = True
                if not e["match"]:
                    leaked = [l for l in ret if l in bad and l in e["evaluated"]]
                    if leaked:
                        out.v("offending_line_matched", f"{mw}: offending lines {leaked} were returned as matches", **facts)
                # validation-mode: match is documented as "return True on error": where the unchanged library honours that
                # (every error kind except an exception inside a match-position function), the offending line must be returned
                P_eff, _m = effective(sc["policy"], sc["override"]["value"] if sc["override"] and sc["override"]["member"] == j else None)
                # (a 'stop' written in the validation-mode comment itself makes a match-position function stop the run
                # mid-line; a 'stop' that only comes from the configured policy takes effect after the line)
                vm_words = (sc["override"]["value"].split(",") if sc["override"] and sc["override"]["member"] == j else [])
                if e["match"] and sc["kind"] in MATCH_MODE_HONOURED and not P_eff["raise"] and not sc.get("tail") and not sc.get("double") and "stop" not in [x.strip() for x in vm_words]:
                    lost = [l for l in e["evaluated"] if l in bad and l not in ret and (l >= 1 or ret_has_header)]
                    if lost:
                        out.v("match_mode_ignored", f"{mw}: validation-mode says match but offending lines {lost} were not returned (returned {ret})", **facts)
                # lines on which nothing raised are untouched by the error machinery
                t = sc.get("tail")
                tl = t["line"] if t else None
                # (a 'cond -> stop()/skip()' tail votes no on every line where cond is false, so with a tail no clean line matches)
                want_clean = [l for l in e["evaluated"] if l not in bad and l != tl] if (CLEAN_LINE_MATCHES[sc["kind"]] and not t) else []
                got_clean = [l for l in ret if l not in bad and l != tl]
                if got_clean != want_clean and not sc.get("or_single"):  # (in OR mode what a lone clean component votes is C01's business)
                    out.v(
                        "clean_line_affected",
                        f"{mw}: lines on which no component raised were returned as {got_clean}, expected {want_clean} (an error on another line must not change them)",
                        missing=bool(set(want_clean) - set(got_clean)),
                        **facts,
                    )
        pos = []
        S = scanned(sc)
        for F in sc["planted"]:
            for l in F:
                pos.append("first" if S and l == S[0] else "last" if S and l == S[-1] else "after_blank" if (l - 1) in sc["blanks"] else "mid")
        out.sig = [sc["policy"], sc["kind"], how, sorted(set(pos)), facts["override"], len(sc["planted"]), sc["tail"]["kind"] if sc.get("tail") else None, bool(sc.get("via_import")), sc.get("pre_shared")]
        out.probe("erroring subtree contains an empty-string term", bool(sc.get("deco")))
        out.probe("erroring component pulled in with import()", bool(sc.get("via_import")))
        out.probe("logic-mode OR with the erroring component alone", bool(sc.get("or_single")))
        out.probe("two components raised on the same line", False)
        out.probe("CsvPath from the CsvPaths.csvpath() factory run directly", False)
        out.probe("policy narrowed on the instance after it was created under a policy with raise", False)
        out.probe("an earlier CsvPath sharing the Config object ran with a contradicting override", False)
        out.probe("stop()/skip() later on an offending line", bool(sc.get("tail")) and any(sc["tail"]["line"] in F for F in sc["planted"]))
        out.nontrivial = evaluated_any
        out.probe("offending line is the last scanned line", "last" in pos)
        out.probe("offending line right after a blank record", "after_blank" in pos)
        out.probe("validation-mode override in a two-member group", bool(sc["override"]) and k == 2)
        out.log([[e["evaluated"], sorted(e["err_lines"]), e["valid"], e["printed"]] for e in exp], aborted, [ops.path_state(g["cp"], errors=g["errors"], printouts=g["printed"], lines=g["lines"]) for g in got], len(out.violations))
    return out.done()

"""Shared helpers for property modules."""
import copy
import hashlib
import json

from .. import seams, extfuncs

REAL_ALL = [
    "the whole csvpath package imported from /repo's working tree: PLY scanner, Lark matcher, every match function used, CsvPath/CsvPaths, file/paths/results managers, registrars, serializer, line spooler, file cacher, readers",
    "a real file system (tmpfs scratch world per simulated execution), real csv/json modules",
]
STUB_ALL = [
    "wall clock (datetime.now / time.time / perf_counter_ns) -> SimClock",
    "uuid4 -> PRNG derived from the scenario seed",
    "os.listdir order -> sorted then permuted by a salted PRNG",
    "stdout -> sink",
    "OpenLineage listeners: absent from the world's config.ini (not faked)",
    "simfault/simfaultv/simprobe: harness functions registered through FunctionFactory.add_function",
]


def V(clause, detail, **facts):
    return {"clause": clause, "detail": str(detail)[:1200], "facts": facts}


class Out:
    """Accumulates the outcome of one simulated execution."""

    def __init__(self):
        self.violations = []
        self.faults = {}
        self.probes = {}
        self.sig = []
        self.states = []
        self.runs = 0
        self.extra = {}
        self.nontrivial = False
        self.discard = False
        self._h = hashlib.sha256()

    def v(self, clause, detail, **facts):
        self.violations.append(V(clause, detail, **facts))

    def fault(self, kind, n=1):
        if n:
            self.faults[kind] = self.faults.get(kind, 0) + n

    def probe(self, name, hit=True):
        self.probes[name] = self.probes.get(name, 0) + (1 if hit else 0)

    def log(self, *items):
        """Event log entry: goes into the run digest."""
        self._h.update(json.dumps(items, sort_keys=True, default=str).encode())

    def done(self):
        d = {
            "violations": self.violations,
            "faults": self.faults,
            "probes": self.probes,
            "sig": json.dumps(self.sig, default=str),
            "states": self.states,
            "runs": self.runs,
            "nontrivial": self.nontrivial,
            "sim_s": (seams.SimClock.cumulative + seams.SimClock.total_advance).total_seconds(),
            "digest": self._h.hexdigest(),
            "extra": self.extra,
        }
        if self.discard:
            d["discard"] = True
        ld = seams.STATE.listdir_permuted
        if ld:
            d["faults"] = dict(d["faults"])
            d["faults"]["listdir_perm"] = d["faults"].get("listdir_perm", 0) + ld
        return d


def drop_each(lst, min_len=0):
    """All lists obtained by deleting one chunk (halves first, then single
    items) - the ddmin candidate order."""
    n = len(lst)
    if n <= min_len:
        return
    size = n // 2
    while size >= 1:
        for start in range(0, n, size):
            cand = lst[:start] + lst[start + size :]
            if len(cand) >= min_len and len(cand) < n:
                yield cand
        size //= 2


def with_(sc, **kw):
    c = copy.deepcopy(sc)
    c.update(kw)
    return c

"""C08 - a csvpath gives the same results alone, in a serial run and breadth-first.

Workload: groups of 1-4 generated members (no cross-path signals, references or
line rewriting) in a seeded order over a generated file; every scenario runs
each member alone on a standalone CsvPath, the three path-major methods and the
three line-major methods (both if_all_agree settings), each on a fresh CsvPaths.
Oracle: per member, the twin executions agree; the caller-visible stream of
next_paths is the concatenation of the members' lines; the caller-visible lines
of a breadth-first run are, per record, the union (intersection) of the
members' standalone decisions."""
import json
import os

from .. import seams, ops, gen, world as W
from .common import Out, drop_each, with_, REAL_ALL, STUB_ALL

ID = "C08"
TIERS = {"quick": {"n": 500, "chunk": 8}, "thorough": {"n": 20000, "chunk": 60, "wall_cap": 3300}}
RULE = (
    "each scenario: a generated file (1-9 records, blanks, ragged rows), dialect, a group of 1-4 generated members in seeded order; executed (k + 9) times: each member standalone, collect_paths, "
    "next_paths(collect), fast_forward_paths, and collect_by_line / next_by_line / fast_forward_by_line with if_all_agree False and True. Non-trivial = group has >= 2 members or some member has a control/side effect "
    "(stop/skip/advance/fail/print/last/variables); distinct = (#members, per-member feature set, scan shapes, blank-record pattern class, dialect)."
)
ASSUMPTIONS = [
    "members do not use stop_all/fail_all/skip_all/advance_all, references, import, or replace/append/collect (as the statement says)",
    "what a member that has already stopped 'votes' in if_all_agree is not stated: caller-visible lines are asserted only for records every member was still running on",
    "error records are not in the statement's list and are not compared; printouts are",
]
REAL = REAL_ALL
STUB = STUB_ALL

DIALECTS = [[",", '"'], [",", '"'], [",", '"'], [";", '"'], ["|", '"'], ["\t", '"'], [",", "'"]]


def generate(rng, i, tier):
    rows = gen.gen_rows(rng, ws_lines=True)
    hdr = rows[0]
    if rng.random() < 0.25 and len(rows) > 2:
        # an exact duplicate of a record somewhere later in the file
        src = rng.choice([r for r in rows[1:] if r] or [rows[0]])
        rows.insert(rng.randint(2, len(rows)), list(src))
    k = rng.choice([1, 2, 2, 3, 3, 4])
    members = []
    for j in range(k):
        modes = {}
        if rng.random() < 0.15:
            modes["return-mode"] = "no-matches"
        if rng.random() < 0.1:
            modes["logic-mode"] = "OR"
        if rng.random() < 0.1:
            modes["unmatched-mode"] = "keep"
        if rng.random() < 0.12:
            modes["print-mode"] = "no-default"  # "do not print to the console": what is collected as printouts is unchanged
        members.append(gen.gen_member(rng, hdr, len(rows), f"m{j}", zoo_p=0.4, zoo_pool=gen.ZOO_SAFE, modes=modes))
    rng.shuffle(members)  # seeded member order
    if k >= 2 and rng.random() < 0.1:
        # the very same csvpath twice in the group, without an identity (legal: members are then known by position)
        a = rng.randrange(len(members))
        twin = dict(members[a], id=None)
        members[a] = dict(twin)
        members.insert(rng.randint(0, len(members)), dict(twin))
        if rng.random() < 0.6:
            members.append(gen.gen_member(rng, hdr, len(rows), "mz", zoo_p=0.4, zoo_pool=gen.ZOO_SAFE))
    tear = {"ext": rng.choice(["csv", "json"]), "before": rng.randint(1, 8)} if rng.random() < 0.3 else None
    return {"seed": rng.getrandbits(32), "rows": rows, "members": members, "dialect": rng.choice(DIALECTS), "policy": rng.choice([["collect", "print"], ["collect"], ["collect", "fail"], ["collect", "stop"]]), "tear": tear, "peek": rng.random() < 0.3, "reregister": k >= 2 and rng.random() < 0.15}


def reductions(sc):
    for cand in drop_each(sc["members"], 1):
        yield with_(sc, members=cand)
    for rows in gen.rows_reductions(sc["rows"]):
        yield with_(sc, rows=rows)
    for j, m in enumerate(sc["members"]):
        for mm in gen.member_reductions(m):
            c = with_(sc)
            c["members"][j] = mm
            yield c
        if m.get("modes"):
            c = with_(sc)
            c["members"][j]["modes"] = {}
            yield c
    if sc["dialect"] != [",", '"']:
        yield with_(sc, dialect=[",", '"'])
    if sc.get("tear"):
        yield with_(sc, tear=None)
    if sc.get("peek"):
        yield with_(sc, peek=False)
    if sc.get("reregister"):
        yield with_(sc, reregister=False)


def _features(m):
    f = set()
    for c in m["comps"]:
        for key in ("stop()", "skip()", "advance(", "fail()", "print(", "last()", "push(", "tally(", "onmatch", "@"):
            if key in c:
                f.add(key.strip("(@)") or "var")
    return sorted(f)


def _state(cp, printed, lines, anonymous=False):
    printed = list(printed)
    if anonymous:
        # a member without an identity is called "" alone and by its position in a group: error messages quote that name
        import re

        printed = [re.sub(r"^\[[^\]]*\] ", "[] ", p) if isinstance(p, str) else p for p in printed]
    return {
        "lines": lines,
        "variables": ops.jsonable(cp.variables),
        "printouts": printed,
        "is_valid": cp.is_valid,
        "scan_count": cp.scan_count,
        "match_count": cp.match_count,
    }


def _diff(a, b, skip_lines=False):
    for k in a:
        if skip_lines and k == "lines":
            continue
        if json.dumps(a[k], sort_keys=True, default=str) != json.dumps(b[k], sort_keys=True, default=str):
            return k, a[k], b[k]
    return None


def execute(sc):
    out = Out()
    seams.reset(sc["seed"])
    delim, quote = sc["dialect"]
    members = sc["members"]
    k = len(members)
    with W.World(csvpath_policy=sc["policy"]) as w:
        w.write_csv("src/f.csv", sc["rows"], delimiter=delim, quotechar=quote)
        texts = [gen.render(m) for m in members]
        # (i) standalone twins
        alone = {}
        stop_line = {}
        try:
            for mi, m in enumerate(members):
                cp, printed, lines = ops.standalone(gen.render(m, "src/f.csv"), delimiter=delim, quotechar=quote)
                out.runs += 1
                alone[mi] = _state(cp, printed, lines, anonymous=m.get("id") is None)
                stop_line[mi] = cp.line_monitor.physical_line_number if cp.line_monitor.physical_line_number is not None else -1
        except Exception as e:  # noqa: BLE001
            if ops.in_repo(e) and type(e).__name__ in ("VisitError", "UnexpectedCharacters", "UnexpectedEOF", "ParsingException", "UnexpectedToken"):
                out.discard = True
                return out.done()
            raise
        cs0 = ops.new_csvpaths(delim, quote)
        with ops.quiet():
            cs0.file_manager.add_named_file(name="f", path="src/f.csv")
            cs0.paths_manager.add_named_paths(name="g", paths=texts)
        rows = sc["rows"]
        last_all_running = min(stop_line.values()) if stop_line else -1
        if k >= 2 and len(set(stop_line.values())) > 1:
            out.probe("a member stopped while others continue")
        if rows and rows[-1] == [] and any("last()" in c for m in members for c in m["comps"]):
            out.probe("blank last record with last()")
        if any("advance(" in c for m in members for c in m["comps"]) and any(r == [] for r in rows[1:-1]):
            out.probe("advance in a file with interior blank records")
        ids = [r[0] for r in rows if r]
        dup_ids = {x for x in ids if ids.count(x) > 1}
        rowid = {r[0]: idx for idx, r in enumerate(rows) if r and r[0] not in dup_ids}
        if dup_ids:
            out.probe("file with an exact duplicate record")
        callers = {}

        configs = [("collect_paths", None), ("next_paths_collect", None), ("fast_forward_paths", None)]
        for agree in (False, True):
            configs += [("collect_by_line", agree), ("next_by_line", agree), ("fast_forward_by_line", agree)]
        tear = sc.get("tear")
        for ci, (meth, agree) in enumerate(configs):
            if tear and ci == tear["before"]:
                # between two runs half of the line-count/header cache entries is lost (a process killed between the two
                # writes, a cleaned-up directory): the next run must recount, not go on with half an entry
                cdir = "cache"
                gone = [f for f in (os.listdir(cdir) if os.path.isdir(cdir) else []) if f.endswith("." + tear["ext"])]
                for f in gone:
                    os.remove(os.path.join(cdir, f))
                if gone:
                    out.fault("torn_cache_entry", len(gone))
                    out.probe("run over a cache with half of an entry missing")
            cs = ops.new_csvpaths(delim, quote)
            where = f"{meth}" + ("" if agree is None else f"(if_all_agree={agree})")
            peeks = {"n": 0}

            rereg = {"done": False}

            def on_yield(line, cs=cs, meth=meth):
                if sc.get("reregister") and meth == "next_paths_collect" and not rereg["done"]:
                    # while the serial generator run is suspended, somebody registers OTHER content under the file's name:
                    # the run under way was started on the version that was current then
                    rereg["done"] = True
                    w.write_csv("src/other.csv", [rows[0]] + [[f"x{n}"] + ["9"] * (len(rows[0]) - 1) for n in range(3)], delimiter=delim, quotechar=quote)
                    with ops.quiet():
                        ops.new_csvpaths(delim, quote).file_manager.add_named_file(name="f", path="src/other.csv")
                    out.fault("file_reregistered_mid_run")
                    out.probe("named file registered anew while a generator run over it was suspended")
                if not sc.get("peek"):
                    return
                # a consumer that looks at the results so far on every line it is handed (a progress display)
                for r in ops.results_of(cs, "g"):
                    try:
                        len(r)
                        ops.result_lines(r)
                        peeks["n"] += 1
                    except Exception as e:  # noqa: BLE001
                        if not ops.in_repo(e):
                            raise

            caller = ops.run_group(cs, meth, "g", if_all_agree=bool(agree), on_yield=on_yield if (sc.get("peek") or sc.get("reregister")) else None)
            if rereg["done"]:
                # the original content becomes the current version again for the runs that follow
                with ops.quiet():
                    ops.new_csvpaths(delim, quote).file_manager.add_named_file(name="f", path="src/f.csv")
            if peeks["n"]:
                out.fault("consumer_peek", peeks["n"])
                out.probe("consumer read the collected lines while the run was going on")
            out.runs += 1
            out.fault("schedule_line_major" if meth in ops.BYLINE else "schedule_path_major")
            rs = ops.results_of(cs, "g")
            if len(rs) != k:
                out.v("results_count", f"{where}: {len(rs)} results for {k} members", method=meth)
                continue
            collects = meth in ops.COLLECTING
            for mi, (m, r) in enumerate(zip(members, rs)):
                got = _state(r.csvpath, r.printouts, ops.result_lines(r) if collects else None, anonymous=m.get("id") is None)
                d = _diff(alone[mi], got, skip_lines=not collects)
                if d:
                    out.v(
                        "member_differs",
                        f"{where}: member {m['id']} {gen.render(m)!r}: {d[0]} standalone={json.dumps(d[1], default=str)[:300]} in group run={json.dumps(d[2], default=str)[:300]}",
                        field=d[0],
                        schedule="byline" if meth in ops.BYLINE else "serial",
                    )
            if meth == "next_paths_collect":
                want = [l for mi in range(len(members)) for l in alone[mi]["lines"]]
                if caller != want:
                    out.v("next_paths_stream", f"{where}: caller saw {caller!r:.300}, concatenation of members' lines is {want!r:.300}", method=meth)
            if meth in ("collect_by_line", "next_by_line"):
                callers[(meth, agree)] = caller
                other = callers.get(("next_by_line" if meth == "collect_by_line" else "collect_by_line", agree))
                if other is not None and other != caller:
                    out.v("byline_forms_differ", f"if_all_agree={agree}: collect_by_line returned {callers[('collect_by_line', agree)]!r:.300} but next_by_line yielded {callers[('next_by_line', agree)]!r:.300}", agree=bool(agree))
                # per record decisions of the standalone twins
                dec = {mi: {rowid[l[0]] for l in alone[mi]["lines"] if l and l[0] in rowid} for mi in range(len(members))}
                seen = [rowid.get(l[0]) if l else None for l in caller]
                idxs = [x for x in seen if x is not None]
                if idxs != sorted(idxs) or len(set(idxs)) != len(idxs):
                    out.v("caller_order", f"{where}: caller-visible records out of file order or repeated: {idxs}", method=meth)
                for idx, row in enumerate(rows):
                    if not row or idx > last_all_running or row[0] in dup_ids:
                        continue
                    votes = [idx in dec[mi] for mi in range(len(members))]
                    want = all(votes) if agree else any(votes)
                    if (idx in idxs) != want:
                        out.v(
                            "caller_lines",
                            f"{where}: record {idx} {row!r} {'was' if idx in idxs else 'was not'} returned to the caller; standalone decisions of members {[m['id'] for m in members]} are {votes}",
                            agree=bool(agree),
                        )
                        break
            if out.violations:
                break
        feats = sorted({f for m in members for f in _features(m)})
        out.sig = [k, [(_features(m), m["scan"][-1:] if m["scan"] == "*" else "w") for m in members], "".join("b" if r == [] else "r" for r in rows)[:12], sc["dialect"] != [",", '"']]
        out.nontrivial = k >= 2 or bool(feats)
        out.extra["features"] = feats
        out.probe("run over a cache with half of an entry missing", False)
        out.probe("consumer read the collected lines while the run was going on", False)
        out.probe("named file registered anew while a generator run over it was suspended", False)
        out.probe("the same unidentified csvpath twice in a group", any(members[a]["id"] is None and members[a] == members[b] for a in range(len(members)) for b in range(a + 1, len(members))))
        out.probe("member with a mode set in its comment", any(m.get("modes") for m in members))
        for pr in ("file with an exact duplicate record", "a member stopped while others continue", "blank last record with last()", "advance in a file with interior blank records"):
            out.probe(pr, False)
        out.log(alone, stop_line, len(out.violations))
    return out.done()

"""C11 - the named-files area is a versioned, content-addressed, immutable store.

Workload: histories over write_source / add_named_file / remove_named_file /
restart (new CsvPaths over the same world) / add_named_file whose copy into the store
is torn by a disk-full error (then retried), directory listings permuted.
Oracle: an abstract store  name -> [(sha256, source basename)]  checked after
every operation through the live instance *and* a fresh one, plus a disk-only
walk of inputs/named_files."""
import datetime as _dt
import hashlib
import json
import os

from .. import seams, ops, world as W
from .common import Out, drop_each, with_, REAL_ALL, STUB_ALL

ID = "C11"
TIERS = {"quick": {"n": 50000, "chunk": 250}, "thorough": {"n": 2000000, "chunk": 2000, "wall_cap": 3300}}
RULE = (
    "each scenario is a seeded history (3-8 ops, 1 in 8 up to 25) over {write source (5 source paths incl. same basename in two dirs and a name with two dots, 3 fixed contents + fresh ones), "
    "add_named_file (2 names), remove_named_file, restart, failing registration (missing source), registration whose copy is torn by ENOSPC after 0/50/100% of the bytes (3 in 4 retried at once, some after the source was rewritten), set_named_files() of 1-3 entries of which one may be missing, registration in which the k-th (1-14) file-system call inside the named-files area fails with EIO and which is then retried}; after every op the store is compared with the abstract model through the live and a fresh instance and by a disk walk. "
    "A scenario is non-trivial when some name holds >= 2 registrations; distinct = distinct abstract op-class sequences (op kind, name, content class new/current/earlier, basename change, instance age)."
)
ASSUMPTIONS = [
    "source files are regular local files with a single-dot extension; s3:// and xlsx '#sheet' sources are not explored",
    "no concurrent writers to the inputs directory (the library documents single-user instances)",
]
REAL = REAL_ALL
STUB = STUB_ALL + ["builtins.open / os.rename,replace,remove,mkdir,makedirs / shutil.copy*,move,rmtree during an add_iofault op: the k-th call naming a path inside the named-files area raises EIO before doing anything (verifsim/iofault.py)", "shutil.copy/copy2/copyfile and open(..., 'w'/'a') inside the named-files area during an add_torn op: a prefix of the bytes is stored and ENOSPC raised (disk-full fault)"]

# (the last one is a file name that is not valid UTF-8 on disk - b"f\xe9vrier.csv", as written by a Latin-1 system; Python
# hands it around with a lone surrogate)
SOURCES = ["d0/a.csv", "d1/a.csv", "d0/b.csv", "d1/c.txt", "d1/r.2024-03.csv", "d0/f\udce9vrier.csv"]
NAMES = ["n0", "n1"]


def content_bytes(cid):
    return (f"id,v\nr1,{cid}\nr2,x{cid}\n").encode()


def generate(rng, i, tier):
    long = rng.random() < 0.125
    n = rng.randint(9, 25) if long else rng.randint(3, 8)
    weights = {"write": rng.choice([2, 3, 4]), "add": rng.choice([3, 4, 6]), "remove": rng.choice([0, 1, 1, 2]), "restart": rng.choice([0, 1, 2]), "add_bad": rng.choice([0, 0, 1]), "add_torn": rng.choice([0, 1, 1]), "bulk": rng.choice([0, 0, 1]), "add_iofault": rng.choice([0, 1, 1, 2]), "bulk_dir": rng.choice([0, 0, 1])}
    kinds = [k for k, w in weights.items() for _ in range(w)]
    srcs = rng.sample(SOURCES[:5], rng.randint(2, 5))
    if rng.random() < 0.12:
        srcs[rng.randrange(len(srcs))] = SOURCES[5]
    opsl = []
    fresh = 0
    # always start with something registrable
    opsl.append({"op": "write", "src": srcs[0], "content": "c0"})
    for _ in range(n):
        k = rng.choice(kinds)
        if k == "write":
            if rng.random() < 0.2:
                fresh += 1
                c = f"u{fresh}"
            else:
                c = rng.choice(["c0", "c1", "c2"])
            opsl.append({"op": "write", "src": rng.choice(srcs), "content": c})
        elif k == "add":
            opsl.append({"op": "add", "name": rng.choice(NAMES), "src": rng.choice(srcs)})
        elif k == "remove":
            opsl.append({"op": "remove", "name": rng.choice(NAMES)})
            if rng.random() < 0.3:
                # the delete dies part-way (I/O error after one file is gone); the caller asks again
                opsl[-1]["fault_at"] = rng.randint(1, 3)
        elif k == "add_bad":
            # a registration that must fail (the source does not exist): the store must be left as it was
            opsl.append({"op": "add_bad", "name": rng.choice(NAMES), "src": rng.choice(["d9/gone.csv", "d0/never-written.csv", "d0"])})
        elif k == "add_torn":
            # the copy into the store dies part-way (disk full): the call raises; the caller usually tries again at once -
            # sometimes after the source has been rewritten with other bytes of the same length
            opsl.append({"op": "add_torn", "name": rng.choice(NAMES), "src": rng.choice(srcs), "cut": rng.choice([0.0, 0.5, 0.5, 1.0]), "retry": rng.random() < 0.75, "edit": rng.choice([None, None, "c0", "c1", "c2"]),
                         # the fault may persist for the whole call (every copy the library attempts is torn)
                         "times": rng.choice([1, 1, 99])})
        elif k == "add_iofault":
            # the at-th file-system call the registration makes inside the named-files area fails (EIO); the caller retries
            opsl.append({"op": "add_iofault", "name": rng.choice(NAMES), "src": rng.choice(srcs), "at": rng.randint(1, 14)})
        elif k == "bulk_dir":
            # add_named_files_from_dir(): every accepted file of a directory, named by its stem - two files may share a stem
            files = [[nm + ext, rng.choice(["c0", "c1", "c2"])] for nm in rng.sample(NAMES, rng.randint(1, 2)) for ext in rng.sample([".csv", ".tsv", ".txt"], rng.choice([1, 1, 2]))]
            opsl.append({"op": "bulk_dir", "files": files})
        elif k == "bulk":
            # set_named_files({...}): several registrations in one call; one of the sources may be missing, which ends the call there
            items = [[nm, rng.choice(srcs)] for nm in rng.sample(NAMES, rng.randint(1, 2))]
            if rng.random() < 0.5:
                items.insert(rng.randint(0, len(items)), ["nbad", "d9/gone.csv"])
            opsl.append({"op": "bulk", "items": items})
        elif k == "restart" and rng.random() < 0.4:
            # the caller goes on with the OTHER of two long-lived instances (whatever it remembers is as old as its last use)
            opsl.append({"op": "swap"})
        else:
            opsl.append({"op": "restart"})
    return {"seed": rng.getrandbits(32), "listdir_salt": rng.choice([None, rng.getrandbits(16), rng.getrandbits(16)]), "ops": opsl, "clock": rng.choice(["frozen", "frozen", "tick", "jumps"]), "log": rng.choice(["error"] * 5 + ["debug", "info"]), "inputs_prefix": rng.choice([""] * 4 + ["./", ".//"]), "inputs_suffix": rng.choice([""] * 4 + ["/"])}


def reductions(sc):
    for cand in drop_each(sc["ops"], 1):
        yield with_(sc, ops=cand)
    if sc.get("listdir_salt") is not None:
        yield with_(sc, listdir_salt=None)
    if sc.get("clock", "frozen") != "frozen":
        yield with_(sc, clock="frozen")
    if sc.get("log", "error") != "error":
        yield with_(sc, log="error")
    if sc.get("inputs_prefix"):
        yield with_(sc, inputs_prefix="")
    if sc.get("inputs_suffix"):
        yield with_(sc, inputs_suffix="")
    for j, op in enumerate(sc["ops"]):
        if op["op"] == "write" and op["content"] != "c0":
            c = [dict(o) for o in sc["ops"]]
            c[j]["content"] = "c0"
            yield with_(sc, ops=c)


def _sha(b):
    return hashlib.sha256(b).hexdigest()


class _torn_copies:
    """Disk-full seam: while active, the first shutil copy of a regular file writes only `cut` of the bytes to the
    destination and raises ENOSPC.  (shutil is the library's only way of bringing a local file into the store.)"""

    NAMES = ("copy", "copy2", "copyfile")

    def __init__(self, cut, times=1):
        self.cut = cut
        self.times = times
        self.state = {"fired": 0}

    def __enter__(self):
        import errno
        import shutil

        self.saved = {n: getattr(shutil, n) for n in self.NAMES}
        st = self.state
        cut = self.cut
        times = self.times

        def make(real):
            def torn(src, dst, *a, **kw):
                if st["fired"] >= times or not os.path.isfile(src):
                    return real(src, dst, *a, **kw)
                st["fired"] += 1
                if os.path.isdir(dst):
                    dst = os.path.join(dst, os.path.basename(src))
                with open(src, "rb") as f:
                    b = f.read()
                with open(dst, "wb") as f:
                    f.write(b[: int(len(b) * cut)])
                raise OSError(errno.ENOSPC, "No space left on device (simulated)")

            return torn

        for n, real in self.saved.items():
            setattr(shutil, n, make(real))
        # ... and the same fault for an implementation that copies through open()/write(): the first write to a file
        # opened for writing inside the named-files area (manifests excepted) stores a prefix and raises
        import builtins

        self.real_open = real_open = builtins.open

        class Torn:
            def __init__(self, f):
                self.f = f

            def write(self, data):
                if st["fired"] >= times:
                    return self.f.write(data)
                st["fired"] += 1
                self.f.write(data[: int(len(data) * cut)])
                self.f.flush()
                raise OSError(errno.ENOSPC, "No space left on device (simulated)")

            def __enter__(self):
                self.f.__enter__()
                return self

            def __exit__(self, *a):
                return self.f.__exit__(*a)

            def __getattr__(self, name):
                return getattr(self.f, name)

        def opener(file, mode="r", *a, **kw):
            f = real_open(file, mode, *a, **kw)
            if st["fired"] < times and isinstance(file, str) and any(c in mode for c in "wax") and os.sep + "named_files" + os.sep in os.path.abspath(file) and not file.endswith(".json"):
                return Torn(f)
            return f

        builtins.open = opener
        return st

    def __exit__(self, *a):
        import builtins
        import shutil

        builtins.open = self.real_open
        for n, real in self.saved.items():
            setattr(shutil, n, real)
        return False


def _read(p):
    with open(p, "rb") as f:
        return f.read()


def _check(out, fm, who, model, step):
    """Compares the store as seen through FileManager `fm` with the model."""
    try:
        names = set(fm.named_file_names)
    except Exception as e:  # noqa: BLE001
        out.v("names_raise", f"step {step} [{who}] named_file_names raised {ops.exc_sig(e)}", who=who)
        return
    if names != set(model):
        out.v("names", f"step {step} [{who}] named_file_names {sorted(names)} != model {sorted(model)}", who=who)
    for name in NAMES:
        if name not in model:
            try:
                p = fm.get_named_file(name)
            except Exception as e:  # noqa: BLE001
                out.v("absent_raises", f"step {step} [{who}] get_named_file({name}) for an absent name raised {ops.exc_sig(e)}", who=who)
                continue
            if p is not None:
                out.v("absent_visible", f"step {step} [{who}] removed/unregistered name {name} resolves to {p}", who=who)
            continue
        versions = model[name]
        sha, base, data = versions[-1]
        try:
            p = fm.get_named_file(name)
        except Exception as e:  # noqa: BLE001
            out.v("get_raises", f"step {step} [{who}] get_named_file({name}) raised {ops.exc_sig(e)}", who=who)
            continue
        if p is None or not os.path.isfile(p):
            out.v("current_missing", f"step {step} [{who}] get_named_file({name}) -> {p}: not a file", who=who)
            continue
        got = _read(p)
        if got != data:
            out.v("current_bytes", f"step {step} [{who}] {name}: bytes at {p} are sha {_sha(got)[:12]}, most recent registration was {sha[:12]}", who=who)
        ext = base[base.find(".") + 1 :]
        if os.path.basename(p) != f"{_sha(got)}.{ext}":
            out.v("content_address", f"step {step} [{who}] {name}: file name {os.path.basename(p)} is not sha256(bytes).{ext}", who=who)
        try:
            fp = fm.get_fingerprint_for_name(name)
            if fp != sha:
                out.v("fingerprint", f"step {step} [{who}] get_fingerprint_for_name({name})={fp[:12]} model {sha[:12]}", who=who)
        except Exception as e:  # noqa: BLE001
            out.v("fingerprint_raises", f"step {step} [{who}] get_fingerprint_for_name({name}) raised {ops.exc_sig(e)}", who=who)


def _check_disk(out, model, step):
    root = os.path.join("inputs", "named_files")
    for name, versions in model.items():
        home = os.path.join(root, name)
        mp = os.path.join(home, "manifest.json")
        try:
            with open(mp, encoding="utf-8") as f:
                man = json.load(f)
        except Exception as e:  # noqa: BLE001
            out.v("manifest_unreadable", f"step {step} {mp}: {ops.exc_sig(e)}")
            continue
        fps = [m.get("fingerprint") for m in man]
        want = [v[0] for v in versions]
        if fps != want:
            out.v(
                "manifest_entries",
                f"step {step} {name}: manifest fingerprints {[x[:8] if x else x for x in fps]} != one entry per changing registration {[x[:8] for x in want]}",
                longer=len(fps) > len(want),
            )
        # every version ever registered under the live name is still there, unmodified
        have = {}
        for r, ds, fs in os.walk(home):
            for fn in fs:
                if fn == "manifest.json":
                    continue
                have[_sha(_read(os.path.join(r, fn)))] = os.path.join(r, fn)
        for sha, base, data in versions:
            if sha not in have:
                out.v("version_lost", f"step {step} {name}: registered version {sha[:12]} ({base}) is no longer on disk unmodified; files: {sorted(have.values())}")
        for m in man:
            fpath = m.get("file")
            if fpath and os.path.isfile(fpath):
                if _sha(_read(fpath)) != m.get("fingerprint"):
                    out.v("manifest_file_mismatch", f"step {step} {name}: manifest entry points at {fpath} whose bytes do not hash to its fingerprint")
            elif fpath:
                # the manifest is the library's own record of where each registered version lives
                out.v("manifest_file_missing", f"step {step} {name}: manifest entry for version {str(m.get('fingerprint'))[:12]} (from {m.get('from')}) points at {fpath}, which is no longer on disk")
    for t in sorted(set(m.get("time", "")[:4] for name in model for m in _manifest(name))):
        if t and t < "2031":
            out.v("CLOCK-SEAM-BYPASSED", f"manifest time year {t}")


def _manifest(name):
    try:
        with open(os.path.join("inputs", "named_files", name, "manifest.json"), encoding="utf-8") as f:
            return json.load(f)
    except Exception:  # noqa: BLE001
        return []


def execute(sc):
    out = Out()
    seams.reset(sc["seed"], listdir_salt=sc.get("listdir_salt"))
    with W.World(log_level=sc.get("log", "error"), inputs_prefix=sc.get("inputs_prefix", ""), inputs_suffix=sc.get("inputs_suffix", "")) as w:
        cs = ops.new_csvpaths()
        cs_alt = None
        age = 0
        model = {}  # name -> [(sha, basename, bytes)]
        src_now = {}  # src -> bytes
        for step, op in enumerate(sc["ops"]):
            k = op["op"]
            cls = [k]
            # the wall clock between two operations: frozen, +1 s, or jumping (forwards by hours, backwards by a minute)
            if sc.get("clock") == "tick":
                seams.SimClock.advance(seconds=1)
                out.fault("clock_forward")
            elif sc.get("clock") == "jumps" and step:
                if (sc["seed"] >> (step % 24)) & 1:
                    seams.SimClock.set(seams.SimClock.peek() - _dt.timedelta(seconds=60))
                    out.fault("clock_back")
                else:
                    seams.SimClock.advance(hours=5)
                    out.fault("clock_forward")
            if k == "write":
                data = content_bytes(op["content"])
                registered_from = any(op["src"].split("/")[-1] == b for vs in model.values() for _, b, _ in vs)
                w.write_bytes(os.path.join("src", op["src"]), data)
                src_now[op["src"]] = data
                if registered_from:
                    out.fault("source_edit")
                    cls.append("edit-after-registration")
            elif k == "add":
                if op["src"] not in src_now:
                    out.log(step, "noop")
                    continue
                data = src_now[op["src"]]
                sha = _sha(data)
                base = op["src"].split("/")[-1]
                with ops.quiet():
                    cs.file_manager.add_named_file(name=op["name"], path=os.path.join("src", op["src"]))
                vs = model.setdefault(op["name"], [])
                if not vs:
                    cls.append("first")
                elif (vs[-1][0], vs[-1][1]) == (sha, base):
                    cls.append("repeat")
                    out.probe("identical re-add")
                else:
                    earlier = any(v[0] == sha for v in vs[:-1])
                    cls.append("earlier-bytes" if earlier else ("same-bytes-new-basename" if vs[-1][0] == sha else "new-bytes"))
                    if earlier:
                        out.probe("re-add of old bytes")
                    if vs[-1][1] != base:
                        cls.append("basename-change")
                if not vs or (vs[-1][0], vs[-1][1]) != (sha, base):
                    vs.append((sha, base, data))
                cls.append(op["name"])
                cls.append(f"age{min(age, 2)}")
                # the source is copied, not moved or altered
                sp = os.path.join("src", op["src"])
                if not os.path.isfile(sp) or _read(sp) != data:
                    out.v("source_touched", f"step {step}: source {sp} missing or changed after add_named_file")
            elif k == "add_iofault":
                if op["src"] not in src_now:
                    out.log(step, "noop")
                    continue
                from ..iofault import IOFault

                data = src_now[op["src"]]
                sha = _sha(data)
                base = op["src"].split("/")[-1]
                sp = os.path.join("src", op["src"])
                with IOFault(at=op["at"], under=[os.path.join("inputs", "named_files")]) as fst:
                    try:
                        with ops.quiet():
                            cs.file_manager.add_named_file(name=op["name"], path=sp)
                    except Exception as e:  # noqa: BLE001
                        if not fst["fired"]:
                            raise
                        if not ops.in_repo(e) and not isinstance(e, OSError):
                            raise
                if fst["fired"]:
                    out.fault("io_error")
                    out.extra.setdefault("io_fault_sites", [])
                    out.extra["io_fault_sites"].append(fst["what"].split(" ")[0] + " " + os.path.basename(fst["what"]).split(".")[-1])
                    cls.append("fault@" + fst["what"].split(" ")[0])
                    # the caller tries again; after a registration that returned, the statement applies in full
                    with ops.quiet():
                        cs.file_manager.add_named_file(name=op["name"], path=sp)
                    out.probe("registration retried after an I/O error inside it")
                vs = model.setdefault(op["name"], [])
                if not vs or (vs[-1][0], vs[-1][1]) != (sha, base):
                    vs.append((sha, base, data))
                if _read(sp) != data:
                    out.v("source_touched", f"step {step}: source {sp} changed by add_named_file")
            elif k == "add_torn":
                if op["src"] not in src_now:
                    out.log(step, "noop")
                    continue
                data = src_now[op["src"]]
                sha = _sha(data)
                base = op["src"].split("/")[-1]
                sp = os.path.join("src", op["src"])
                raised = None
                with _torn_copies(op["cut"], op.get("times", 1)) as torn:
                    try:
                        with ops.quiet():
                            cs.file_manager.add_named_file(name=op["name"], path=sp)
                    except OSError as e:
                        raised = e
                if not torn["fired"]:
                    # nothing was copied (an implementation may rightly skip a version it already holds): no fault was
                    # injected, so this was an ordinary registration
                    if raised is not None:
                        raise raised
                    out.probe("torn-copy op in which the library copied nothing")
                    vs = model.setdefault(op["name"], [])
                    if not vs or (vs[-1][0], vs[-1][1]) != (sha, base):
                        vs.append((sha, base, data))
                elif raised is None:
                    out.v("disk_error_swallowed", f"step {step}: the copy into the store failed with ENOSPC but add_named_file({op['name']}) returned normally")
                else:
                    out.fault("torn_copy")
                vs = model.get(op["name"], [])
                cls.append(("known" if vs else "unknown") + ("-retry" if op["retry"] else ""))
                if op["retry"]:
                    if op.get("edit") and torn["fired"]:
                        data = content_bytes(op["edit"])
                        sha = _sha(data)
                        w.write_bytes(sp, data)
                        src_now[op["src"]] = data
                        out.probe("source rewritten between a torn copy and its retry")
                    with ops.quiet():
                        cs.file_manager.add_named_file(name=op["name"], path=sp)
                    vs = model.setdefault(op["name"], [])
                    if not vs or (vs[-1][0], vs[-1][1]) != (sha, base):
                        vs.append((sha, base, data))
                    out.probe("registration retried after a torn copy")
                elif op["name"] not in model:
                    # a failed first registration leaves a half-made home behind; the statement says nothing about it
                    import shutil

                    shutil.rmtree(os.path.join("inputs", "named_files", op["name"]), ignore_errors=True)
                if _read(sp) != data:
                    out.v("source_touched", f"step {step}: source {sp} changed by the failed add_named_file")
            elif k == "bulk_dir":
                d = os.path.join("src", f"dir{step}")
                for fn, cid in op["files"]:
                    w.write_bytes(os.path.join(d, fn), content_bytes(cid))
                # (the listing of THIS directory is left in sorted order, so that the order of the registrations is known)
                keep_rng, seams.STATE.listdir_rng = seams.STATE.listdir_rng, None
                try:
                    with ops.quiet():
                        cs.file_manager.add_named_files_from_dir(d)
                finally:
                    seams.STATE.listdir_rng = keep_rng
                for fn, cid in sorted(op["files"]):
                    nm = fn[: fn.rfind(".")]
                    data = content_bytes(cid)
                    vs = model.setdefault(nm, [])
                    if not vs or (vs[-1][0], vs[-1][1]) != (_sha(data), fn):
                        vs.append((_sha(data), fn, data))
                out.probe("directory registration with two files of one stem", len({fn[: fn.rfind(".")] for fn, _ in op["files"]}) < len(op["files"]))
                cls.append(str(len(op["files"])))
            elif k == "bulk":
                items = [(nm, src) for nm, src in op["items"] if src in src_now or nm == "nbad"]
                bad = any(nm == "nbad" for nm, _ in items)
                try:
                    with ops.quiet():
                        cs.file_manager.set_named_files({nm: os.path.join("src", src) for nm, src in items})
                    if bad:
                        out.v("bad_add_accepted", f"step {step}: set_named_files with the non-existent source src/d9/gone.csv did not fail")
                except Exception as e:  # noqa: BLE001
                    if not bad or (not ops.in_repo(e) and not isinstance(e, OSError)):
                        raise
                    out.fault("failed_registration")
                    out.probe("bulk registration that fails part-way")
                for nm, src in items:
                    if nm == "nbad":
                        import shutil

                        shutil.rmtree(os.path.join("inputs", "named_files", "nbad"), ignore_errors=True)
                        break
                    data = src_now[src]
                    vs = model.setdefault(nm, [])
                    if not vs or (vs[-1][0], vs[-1][1]) != (_sha(data), src.split("/")[-1]):
                        vs.append((_sha(data), src.split("/")[-1], data))
                cls.append(f"{len(items)}{'-bad' if bad else ''}")
            elif k == "remove":
                if op["name"] not in model:
                    out.log(step, "noop")
                    continue
                if op.get("fault_at"):
                    from ..iofault import IOFault

                    with IOFault(at=op["fault_at"], under=[os.path.join("inputs", "named_files")]) as fst:
                        try:
                            with ops.quiet():
                                cs.file_manager.remove_named_file(op["name"])
                        except Exception as e:  # noqa: BLE001
                            if not fst["fired"] or (not ops.in_repo(e) and not isinstance(e, OSError)):
                                raise
                    if fst["fired"]:
                        out.fault("io_error")
                        cls.append("fault@" + fst["what"].split(" ")[0])
                        out.probe("remove retried after an I/O error inside it")
                        with ops.quiet():
                            cs.file_manager.remove_named_file(op["name"])
                else:
                    with ops.quiet():
                        cs.file_manager.remove_named_file(op["name"])
                del model[op["name"]]
                cls.append(op["name"])
            elif k == "add_bad":
                try:
                    with ops.quiet():
                        cs.file_manager.add_named_file(name=op["name"], path=os.path.join("src", op["src"]))
                    out.v("bad_add_accepted", f"step {step}: add_named_file of the non-existent/unsuitable source src/{op['src']} did not fail")
                except Exception as e:  # noqa: BLE001
                    if not ops.in_repo(e) and not isinstance(e, (OSError,)):
                        raise
                out.fault("failed_registration")
                cls.append(op["name"] + ("-known" if op["name"] in model else "-unknown"))
                if op["name"] not in model:
                    # a failed first registration may leave an empty home behind; the statement says nothing about it
                    import shutil

                    shutil.rmtree(os.path.join("inputs", "named_files", op["name"]), ignore_errors=True)
            elif k == "swap":
                cs, cs_alt = (cs_alt if cs_alt is not None else ops.new_csvpaths()), cs
                out.fault("instance_swap")
            elif k == "restart":
                cs = ops.new_csvpaths()
                age = -1
                out.fault("restart")
            age += 1
            out.sig.append(cls)
            _check(out, cs.file_manager, "live", model, step)
            _check(out, ops.new_csvpaths().file_manager, "fresh", model, step)
            _check_disk(out, model, step)
            out.log(step, k, sorted((n, [v[0] for v in vs]) for n, vs in model.items()), len(out.violations))
            if out.violations:
                break
        out.probe("identical re-add", False)
        out.probe("source file name that is not valid UTF-8", any(op.get("src") == SOURCES[5] and op["op"].startswith("add") for op in sc["ops"]))
        out.probe("re-add of old bytes", False)
        out.probe("registration retried after a torn copy", False)
        out.probe("source rewritten between a torn copy and its retry", False)
        out.probe("bulk registration that fails part-way", False)
        out.probe("directory registration with two files of one stem", False)
        out.probe("registration retried after an I/O error inside it", False)
        out.probe("remove retried after an I/O error inside it", False)
        out.nontrivial = any(len(vs) >= 2 for vs in model.values()) or any("repeat" in c for c in out.sig)
        out.states.append(json.dumps(sorted((n, [(v[0][:6], v[1]) for v in vs]) for n, vs in model.items())))
        out.runs = len(sc["ops"])
        out.log("tree", W.tree_digest(("inputs",)))
    return out.done()

"""C09 - the archived results of a run say what the run did.

Workload: groups of generated members (side effects, stop/skip/advance/fail,
non-raising errors, unmatched-mode keep, members with and without identity) over
files with quotes/delimiters/newlines/non-ASCII in cells, all seven run forms,
one or two runs per world (second on a new or the reused instance, clock
ticking).  Oracle: a disk-only reader vs the in-memory results and a tee at the
spooler seam; sha256 of bytes on disk vs the manifests."""
import json
import os

from .. import seams, ops, gen, world as W, diskreader as D
from ..sim import csvpath as _csvpath_pkg  # noqa: F401
from .common import Out, drop_each, with_, REAL_ALL, STUB_ALL

from csvpath.util.line_spooler import CsvLineSpooler

ID = "C09"
TIERS = {"quick": {"n": 5000, "chunk": 60}, "thorough": {"n": 150000, "chunk": 200, "wall_cap": 3300}}
RULE = (
    "each scenario: a generated file (1-9 records, blanks, ragged rows, cells with quotes/delimiters/newlines/non-ASCII), a group of 1-3 generated members (1-5 components from assignments, push, tally, print, "
    "stop/skip/advance/fail under '->', last(), onmatch, erroring add(); some with unmatched-mode keep, some without identity), one of 7 run forms, a non-raising error policy, optionally a second run "
    "(new or reused instance, clock +0s/+1s/+90s). After each run the archive is read from disk by code that shares nothing with csvpath and compared with memory and with the spooler tee. "
    "Non-trivial = the run produced at least one of: data lines, variables, printouts, errors, unmatched lines; distinct = (method, #members, termination kinds, which artefact kinds were non-empty, dialect, run index)."
)
ASSUMPTIONS = [
    "variables are JSON-representable (generated programs only assign strings, numbers, booleans, lists and string-keyed dicts)",
    "error policy never contains 'raise' here (an aborted run is C18's subject)",
    "the in-memory side of the comparison is the library's own Result/CsvPath objects; the disk side is read with json/csv/hashlib only",
]
REAL = REAL_ALL
STUB = STUB_ALL + ["open() of data.csv/unmatched.csv during a run with spool_fault: the nth write stores a prefix and raises ENOSPC (disk-full fault)", "a pass-through tee around CsvLineSpooler.append records what the run handed to the archive"]

POLICIES = [["collect", "print"], ["collect"], ["collect", "fail"], ["collect", "stop", "print"], ["print"], ["collect", "fail", "stop", "print"], ["collect", "quiet"], ["quiet", "fail", "print"]]

TEE = {}
_orig_append = CsvLineSpooler.append


def _tee_append(self, line):
    # (csv writes None as an empty cell: that much loss is inherent in the file format)
    TEE.setdefault(id(self.result), []).append(["" if c is None else f"{c}" for c in line])
    return _orig_append(self, line)


def install_tee():
    if CsvLineSpooler.append is not _tee_append:
        CsvLineSpooler.append = _tee_append


def generate(rng, i, tier):
    rows = gen.gen_rows(rng, nasty=rng.random() < 0.5, ws_lines=True)
    hdr = rows[0]
    if rng.random() < 0.04:
        # one cell big enough to push data.csv / unmatched.csv / vars.json beyond 64 KiB (still below csv's field size limit)
        big = [r for r in rows[1:] if len(r) > 1]
        if big:
            rng.choice(big)[1] = "y" * 70001
    k = rng.randint(1, 3)
    members = []
    for j in range(k):
        ident = None if rng.random() < 0.25 else f"m{j}"
        modes = {}
        if rng.random() < 0.35:
            modes["unmatched-mode"] = "keep"
        if rng.random() < 0.1:
            modes["run-mode"] = "no-run"
        if rng.random() < 0.12:
            # files-mode names the result files the member is expected to leave; whether they are there is a flag in its manifest
            modes["files-mode"] = rng.choice(["all", "data", "data, unmatched", "printouts", "unmatched", "data, printouts, unmatched"])
        transfer = rng.random() < 0.1
        if transfer:
            # after the run the member's data.csv is copied to transfers/<value of the variable>; when there is no
            # data.csv (nothing collected, or a run form that does not collect) today's library raises out of the run
            modes["transfer-mode"] = f"data > tv{j}"
        m = gen.gen_member(rng, hdr, len(rows), ident, modes=modes, zoo_p=0.3, zoo_pool=gen.ZOO_SAFE)
        if transfer:
            m["comps"].insert(0, f'@tv{j} = "out/m{j}.csv"')
        if rng.random() < 0.1:
            # printing to a NAMED printer (sometimes the member prints nowhere else)
            m["comps"].append('print("audit $.csvpath.line_number", "audit")')
            if rng.random() < 0.5:
                m["comps"] = [c for c in m["comps"] if not (c.startswith("print") and '"audit")' not in c)]
        if rng.random() < 0.2:
            # in-place edits of the line (append/replace): in a breadth-first run later members see the edited line
            m["comps"].insert(rng.randint(0, len(m["comps"])), gen.zoo_comp(rng, hdr, 40 + j, gen.ZOO_REWRITE))
        if rng.random() < 0.2:
            # cross-path signals: what they mean is not this property's business, only that memory and disk agree afterwards
            sig = rng.choice(["fail_all()", "stop_all()", "skip_all()", "advance_all(1)", "fail_all()"])
            m["comps"].insert(rng.randint(0, len(m["comps"])), f"{gen.cond(rng, hdr, len(rows))} -> {sig}")
        members.append(m)
    nruns = 1 if rng.random() < 0.6 else 2
    runs = []
    for r in range(nruns):
        run = {"method": rng.choice(ops.METHODS), "inst": "new" if r == 0 or rng.random() < 0.5 else "reused", "tick_s": 0 if r == 0 else rng.choice([0, 1, 90])}
        if rng.random() < 0.15:
            # a caller that starts a generator run on this instance and walks away after a few lines
            run["abandoned_before"] = {"method": rng.choice(["next_paths", "next_paths_collect", "next_by_line"]), "after": rng.randint(1, 3), "tick_s": rng.choice([0, 1])}
        if rng.random() < 0.08:
            # one write to a member's data.csv / unmatched.csv stores only part of its bytes and fails (disk full).  The run may
            # raise, or return with the failure on record; if it returns WITHOUT any record of it, the archive must be right
            run["spool_fault"] = {"cut": rng.choice([0.0, 0.5, 0.5, 1.0]), "nth": rng.randint(1, 3), "file": rng.choice(["data.csv", "unmatched.csv", "unmatched.csv", "printouts.txt", "vars.json", "errors.json", "meta.json"])}
        if rng.random() < 0.12:
            # a manager call on this instance failed just before (a directory that is not there, a torn json file):
            # whatever the instance keeps of that must not leak into the archive of the run
            run["failed_call_before"] = rng.choice(["paths_from_dir", "paths_from_json", "files_from_json", "set_paths_nonlist"])
        runs.append(run)
    dialect = [",", '"'] if rng.random() < 0.8 else rng.choice([[";", '"'], ["|", '"'], ["\t", '"'], [",", "'"]])
    return {
        "seed": rng.getrandbits(32),
        "listdir_salt": rng.choice([None, rng.getrandbits(16)]),
        "rows": rows,
        "members": members,
        "runs": runs,
        # every clock read may move the simulated clock on (0 = frozen): elapsed times are then non-zero
        "step_us": rng.choice([0, 0, 700, 250000]),
        "policy": rng.choice(POLICIES),
        "dialect": dialect,
    }


def reductions(sc):
    if len(sc["runs"]) > 1:
        yield with_(sc, runs=sc["runs"][:1])
        yield with_(sc, runs=sc["runs"][1:])
    for cand in drop_each(sc["members"], 1):
        yield with_(sc, members=cand)
    for rows in gen.rows_reductions(sc["rows"]):
        yield with_(sc, rows=rows)
    for j, m in enumerate(sc["members"]):
        for mm in gen.member_reductions(m):
            c = with_(sc)
            c["members"][j] = mm
            yield c
        if m.get("modes"):
            c = with_(sc)
            c["members"][j]["modes"] = {}
            yield c
    if sc["dialect"] != [",", '"']:
        yield with_(sc, dialect=[",", '"'])
    if sc.get("step_us"):
        yield with_(sc, step_us=0)
    for j, r in enumerate(sc["runs"]):
        if r.get("failed_call_before"):
            c = with_(sc)
            del c["runs"][j]["failed_call_before"]
            yield c
        if r.get("spool_fault"):
            c = with_(sc)
            del c["runs"][j]["spool_fault"]
            yield c
        if r.get("abandoned_before"):
            c = with_(sc)
            del c["runs"][j]["abandoned_before"]
            yield c
        if r["method"] != "collect_paths":
            c = with_(sc)
            c["runs"][j]["method"] = "collect_paths"
            yield c
    if sc.get("listdir_salt") is not None:
        yield with_(sc, listdir_salt=None)


def expected_name(m, idx):
    return m["id"] if m.get("id") is not None else f"{idx}"


def render_printouts(po):
    if not po or not any(v for v in po.values()):
        return None
    s = ""
    for k, v in po.items():
        s += f"---- PRINTOUT: {k}\n"
        for line in v:
            s += f"{line}\n"
    return s


def check_run_archive(out, cs, group, members, where, *, collecting, caller_lines=None, facts=None, allow_unstarted=False):
    """The whole C09 reader for the run that just returned on `cs`.  Returns the
    run directory."""
    facts = facts or {}
    rs = ops.results_of(cs, group)
    run_dir = rs[0].run_dir
    run = D.read_run(run_dir)
    for p in run["problems"]:
        out.v("run_manifest_unreadable", f"{where}: {p}", **facts)
    man = run["manifest"] or {}
    leak = D.clock_leak(man)
    if leak:
        out.v("CLOCK-SEAM-BYPASSED", f"{where}: run manifest {leak}")
    if man.get("status") != "complete":
        out.v("status_not_complete", f"{where}: run manifest status is {man.get('status')!r} after the run returned", **facts)
    want_dirs = sorted(expected_name(m, i) for i, m in enumerate(members))
    if allow_unstarted:
        # a stop_all() in a serial generator run legitimately keeps later members from starting:
        # the directories must then be exactly those of the members that have a result
        started = sorted(r.identity_or_index for r in rs)
        if sorted(run["members"]) != started or not set(started) <= set(want_dirs):
            out.v("member_dirs", f"{where}: member directories {sorted(run['members'])} != one per started member {started} (members {want_dirs})", **facts)
    else:
        if sorted(run["members"]) != want_dirs:
            out.v("member_dirs", f"{where}: member directories {sorted(run['members'])} != one per member named by identity or index {want_dirs}", **facts)
        if len(rs) != len(members):
            out.v("results_count", f"{where}: {len(rs)} in-memory results for {len(members)} members", **facts)
    all_valid, all_completed, err_total = True, True, 0
    kinds = set()
    for i, r in enumerate(rs):
        name = r.identity_or_index
        cp = r.csvpath
        md = run["members"].get(name)
        all_valid = all_valid and cp.is_valid
        all_completed = all_completed and cp.completed
        err_total += len(r.errors)
        mw = f"{where} member {name}"
        if md is None:
            out.v("member_dir_missing", f"{mw}: no directory {os.path.join(run_dir, name)}", **facts)
            continue
        for p in md["problems"]:
            out.v("member_file_unreadable", f"{mw}: {p}", **facts)
        if md["vars"] is not None and md["vars"] != ops.jsonable_plain(cp.variables):
            out.v("vars_mismatch", f"{mw}: vars.json {json.dumps(md['vars'], sort_keys=True)[:300]} != final variables {json.dumps(ops.jsonable_plain(cp.variables), sort_keys=True)[:300]}", **facts)
        if md["errors"] is not None:
            disk_e = [(e.get("line_count"), e.get("error")) for e in md["errors"]]
            mem_e = [(e.line_count, f"{e.error}") for e in r.errors]
            if disk_e != mem_e:
                out.v("errors_mismatch", f"{mw}: errors.json {disk_e!r:.300} != collected errors {mem_e!r:.300}", **facts)
            if mem_e:
                kinds.add("errors")
        want_po = render_printouts(r.get_printouts())
        if md["printouts"] != want_po:
            out.v("printouts_mismatch", f"{mw}: printouts.txt {md['printouts']!r:.200} != printouts in order {want_po!r:.200}", **facts)
        if want_po:
            kinds.add("printouts")
        tee = TEE.get(id(r), [])
        disk_data = md["data"] or []
        if disk_data != tee:
            out.v("data_mismatch", f"{mw}: data.csv parses to {disk_data!r:.300}, the run collected {tee!r:.300}", **facts)
        if tee:
            kinds.add("data")
        if not collecting and md["data"]:
            out.v("data_without_collect", f"{mw}: data.csv has {len(md['data'])} lines but the run form does not collect", **facts)
        mem_um = [["" if c is None else f"{c}" for c in l] for l in (r.unmatched or [])]
        if (md["unmatched"] or []) != mem_um:
            out.v("unmatched_mismatch", f"{mw}: unmatched.csv parses to {md['unmatched']!r:.300}, unmatched lines were {mem_um!r:.300}", **facts)
        if mem_um:
            kinds.add("unmatched")
        if cp.variables:
            kinds.add("vars")
        mm = md["manifest"]
        if mm is not None:
            leak = D.clock_leak(mm)
            if leak:
                out.v("CLOCK-SEAM-BYPASSED", f"{mw}: manifest {leak}")
            if mm.get("valid") != cp.is_valid:
                out.v("member_valid", f"{mw}: manifest valid={mm.get('valid')} but the member's verdict is {cp.is_valid}", **facts)
            if mm.get("completed") != cp.completed:
                out.v("member_completed", f"{mw}: manifest completed={mm.get('completed')} but the member completed={cp.completed}", **facts)
            fps = mm.get("file_fingerprints") or {}
            if sorted(fps) != sorted(md["present"]):
                out.v("fingerprint_set", f"{mw}: file_fingerprints lists {sorted(fps)}, files present {sorted(md['present'])}", **facts)
            for fn, h in fps.items():
                p = os.path.join(md["dir"], fn)
                if os.path.isfile(p) and D.sha256(p) != h:
                    out.v("fingerprint_stale", f"{mw}: file_fingerprints[{fn}] is not the sha256 of the bytes on disk", file=fn, **facts)
        meta = md["meta"]
        if meta is not None:
            rd = meta.get("runtime_data") or {}
            for key, want in (("valid", cp.is_valid), ("count_matches", cp.match_count), ("count_scans", cp.scan_count), ("stopped", cp.stopped)):
                if key in rd and rd[key] != want:
                    out.v("meta_runtime", f"{mw}: meta.json runtime_data.{key}={rd[key]} but the member has {want}", key=key, **facts)
            if meta.get("identity") != name:
                out.v("meta_identity", f"{mw}: meta.json identity {meta.get('identity')!r}", **facts)
    if man:
        if man.get("all_valid") != all_valid:
            out.v("all_valid", f"{where}: run manifest all_valid={man.get('all_valid')} but conjunction of members is {all_valid}", **facts)
        if man.get("all_completed") != all_completed:
            out.v("all_completed", f"{where}: run manifest all_completed={man.get('all_completed')} but conjunction of members is {all_completed}", **facts)
        if man.get("error_count") != err_total:
            out.v("error_count", f"{where}: run manifest error_count={man.get('error_count')} but members collected {err_total}", **facts)
    return run_dir, kinds


class _TornSpool:
    """Disk-full seam for the spooled result files: while active, the nth write to one of a member's result files (data.csv,
    unmatched.csv, printouts.txt, vars.json, errors.json, meta.json; opened for writing/appending) stores only `cut` of its bytes and raises ENOSPC, once."""

    def __init__(self, cut, nth, basename=None):
        self.cut = cut
        self.nth = nth
        self.names = (basename,) if basename else ("data.csv", "unmatched.csv", "printouts.txt", "vars.json", "errors.json", "meta.json")
        self.state = {"fired": 0, "writes": 0}

    def __enter__(self):
        import builtins

        self.real = real = builtins.open
        st, cut, nth, names = self.state, self.cut, self.nth, self.names

        class Torn:
            def __init__(self, f):
                self.f = f

            def write(self, data):
                if st["fired"]:
                    return self.f.write(data)
                st["writes"] += 1
                if st["writes"] < nth:
                    return self.f.write(data)
                st["fired"] = 1
                self.f.write(data[: int(len(data) * cut)])
                self.f.flush()
                raise OSError(28, "No space left on device (simulated)")

            def __enter__(self):
                self.f.__enter__()
                return self

            def __exit__(self, *a):
                return self.f.__exit__(*a)

            def __iter__(self):
                return iter(self.f)

            def __getattr__(self, name):
                return getattr(self.f, name)

        def opener(file, mode="r", *a, **kw):
            f = real(file, mode, *a, **kw)
            if not st["fired"] and isinstance(file, str) and os.path.basename(file) in names and any(c in mode for c in "wax") and "b" not in mode:
                return Torn(f)
            return f

        builtins.open = opener
        return self

    def __exit__(self, *a):
        import builtins

        builtins.open = self.real
        return False


def execute(sc):
    out = Out()
    install_tee()
    TEE.clear()
    seams.reset(sc["seed"], step_us=sc.get("step_us", 0), listdir_salt=sc.get("listdir_salt"))
    delim, quote = sc["dialect"]
    texts = [gen.render(m) for m in sc["members"]]
    with W.World(csvpath_policy=sc["policy"]) as w:
        w.write_csv("src/f.csv", sc["rows"], delimiter=delim, quotechar=quote)
        cs = ops.new_csvpaths(delim, quote)
        try:
            with ops.quiet():
                cs.file_manager.add_named_file(name="f", path="src/f.csv")
                cs.paths_manager.add_named_paths(name="g", paths=texts)
        except Exception as e:  # noqa: BLE001
            out.discard = True
            out.log("setup", ops.exc_sig(e))
            return out.done()
        checked_dirs = []
        for ri, run in enumerate(sc["runs"]):
            if run["tick_s"]:
                seams.SimClock.advance(seconds=run["tick_s"])
                out.fault("clock_forward")
            if run["inst"] == "new":
                if ri:
                    out.fault("restart")
                cs = ops.new_csvpaths(delim, quote)
            elif ri:
                out.fault("instance_reuse")
            ab = run.get("abandoned_before")
            if ab:
                try:
                    got_ab = ops.run_group(cs, ab["method"], "g", stop_after=ab["after"])
                    if got_ab is not None and len(got_ab) >= ab["after"]:
                        out.fault("cancel")
                        out.probe("run after an abandoned generator run on the same instance")
                except Exception as e:  # noqa: BLE001
                    if not ops.in_repo(e):
                        raise
                if ab["tick_s"]:
                    seams.SimClock.advance(seconds=ab["tick_s"])
            fc = run.get("failed_call_before")
            if fc:
                try:
                    with ops.quiet():
                        if fc == "paths_from_dir":
                            cs.paths_manager.add_named_paths_from_dir(directory="no/such/dir")
                        elif fc == "paths_from_json":
                            cs.paths_manager.add_named_paths_from_json(file_path="no/such/file.json")
                        elif fc == "files_from_json":
                            with open("src/torn.json", "w", encoding="utf-8") as f:
                                f.write('{"f": "src/f.c')
                            cs.file_manager.set_named_files_from_json("src/torn.json")
                        else:
                            cs.paths_manager.set_named_paths("not a dict")
                except Exception as e:  # noqa: BLE001
                    if not ops.in_repo(e) and not isinstance(e, (OSError, TypeError, AttributeError, ValueError)):
                        raise
                out.fault("failed_manager_call")
                out.probe("run after a failed manager call on the same instance")
            TEE.clear()
            meth = run["method"]
            where = f"run {ri} ({meth}, {run['inst']} instance{', after an abandoned ' + ab['method'] if ab else ''}{', after a failed ' + fc if fc else ''})"
            sf = run.get("spool_fault") if "collect" in sc["policy"] else None
            torn = _TornSpool(sf["cut"], sf["nth"], sf.get("file")) if sf else None
            try:
                if torn:
                    with torn:
                        lines = ops.run_group(cs, meth, "g")
                else:
                    lines = ops.run_group(cs, meth, "g")
            except Exception as e:  # noqa: BLE001
                if torn and torn.state["fired"] and (ops.in_repo(e) or isinstance(e, OSError)):
                    # the disk error surfaced: the run did not return, the statement is not engaged
                    out.fault("torn_spool_write")
                    out.log("spool-fault-raise", ops.exc_sig(e))
                    break
                if ri == 0 and _is_program_problem(e):
                    out.discard = True
                    out.log("discard", ops.exc_sig(e))
                    return out.done()
                if ops.in_repo(e) and any("transfer-mode" in (m.get("modes") or {}) for m in sc["members"]) and type(e).__name__ in ("FileNotFoundError", "InputException"):
                    # a transfer that cannot be made: the run did not return, so the statement is not engaged
                    out.probe("transfer that could not be made (run raised)")
                    out.log("transfer-raise", ops.exc_sig(e))
                    break
                raise
            out.runs += 1
            if torn and torn.state["fired"]:
                out.fault("torn_spool_write")
                on_record = any("No space left" in f"{e.error}" for r in ops.results_of(cs, "g") for e in (r.errors or []))
                if on_record:
                    # acknowledged failure: the member's files may be short of (or torn at) the failed write
                    out.log("spool-fault-on-record")
                    break
                out.extra["runs_that_returned_without_a_record_of_the_failed_write"] = out.extra.get("runs_that_returned_without_a_record_of_the_failed_write", 0) + 1
            run_dir, kinds = check_run_archive(
                out, cs, "g", sc["members"], where, collecting=meth in ops.COLLECTING, facts={"method": meth, "run": ri, "inst": run["inst"]},
                allow_unstarted=any("stop_all()" in c for m in sc["members"] for c in m["comps"]),
            )
            checked_dirs.append(run_dir)
            rs = ops.results_of(cs, "g")
            term = sorted({("stopped" if r.csvpath.stopped and not r.csvpath.completed else "exhausted") + ("" if r.csvpath.is_valid else "+failed") for r in rs})
            out.sig.append([meth, len(sc["members"]), term, sorted(kinds), sc["dialect"] != [",", '"'], ri, run["inst"]])
            if kinds:
                out.nontrivial = True
            out.extra.setdefault("artefact_kinds", [])
            out.extra["artefact_kinds"] += sorted(kinds)
            out.log(ri, meth, run_dir, sorted(kinds), len(out.violations), [ops.path_state(r.csvpath, errors=r.errors) for r in rs])
            if out.violations:
                break
        out.probe("run after an abandoned generator run on the same instance", False)
        out.probe("run after a failed manager call on the same instance", False)
        out.probe("member using a cross-path signal (fail_all/stop_all/skip_all/advance_all)", any("_all(" in c for m in sc["members"] for c in m["comps"]))
        out.probe("member that edits the line in place (append/replace)", any(c.startswith(("append(", "replace(")) for m in sc["members"] for c in m["comps"]))
        out.probe("archived member file larger than 64 KiB", any(len(c) > 65536 for r in sc["rows"] for c in r))
        out.probe("transfer that could not be made (run raised)", False)
        out.probe("member that prints to a named printer", any('"audit")' in c for m in sc["members"] for c in m["comps"]))
        out.probe("member with files-mode", any("files-mode" in (m.get("modes") or {}) for m in sc["members"]))
        out.probe("member with transfer-mode", any("transfer-mode" in (m.get("modes") or {}) for m in sc["members"]))
        out.probe("member with run-mode: no-run", any((m.get("modes") or {}).get("run-mode") == "no-run" for m in sc["members"]))
        out.log("tree", _digest_tree(checked_dirs))
    return out.done()


def _is_program_problem(e):
    # a generated csvpath the current tree refuses to parse: counted as a
    # discard, never as a violation
    n = type(e).__name__
    return n in ("ParsingException", "UnexpectedCharacters", "UnexpectedInput", "UnexpectedEOF", "VisitError", "InputException", "ChildrenException") and "parse" in (str(e).lower() + n.lower())


def _digest_tree(dirs=None):
    """archive tree hash (of the runs that returned: an abandoned generator run
    keeps its spooler open until the garbage collector gets to it) with volatile
    error fields (object addresses in 'source', tracebacks) normalised."""
    import hashlib

    h = hashlib.sha256()
    for p, d in sorted(W.tree_hashes("archive").items()):
        if dirs is not None and not any(p.startswith(x + os.sep) for x in dirs):
            continue
        if p.endswith("errors.json"):
            try:
                es = D.read_json(p)
                d = json.dumps([(e.get("line_count"), e.get("error")) for e in es])
            except Exception:  # noqa: BLE001
                pass
        if p.endswith("manifest.json") and os.path.basename(os.path.dirname(p)) != "archive":
            # member manifests fingerprint errors.json, whose bytes hold object addresses
            try:
                m = D.read_json(p)
                fp = m.get("file_fingerprints")
                if isinstance(fp, dict):
                    fp.pop("errors.json", None)
                d = json.dumps(m, sort_keys=True)
            except Exception:  # noqa: BLE001
                pass
        h.update(p.encode())
        h.update(d.encode())
    return h.hexdigest()

"""C18 - a run that aborts still leaves a truthful, readable record.

Method: fault-point sweep over a recorded trace (the crash-consistency idiom).
For a seeded scenario (group of 1-4 members over a file of <= 8 records, one of
the seven run forms, an error policy that makes the fault abort the run) the
run is first executed fault-free and its archive recorded; then, for EVERY
(member, line) evaluation event, the run is repeated in a fresh world with the
fault armed at exactly that event, followed by a fault-free recovery run on the
same instance.  Four ways of aborting: an exception inside a function
(simfault), a planted bad cell under add() (argument mismatch), a
per-member 'validation-mode: raise' under a policy without raise, a failure
raised outside every match expression (collect() projection on a short record),
a function error that itself carries a cause (simfault "chain" site; date() on an
unparsable cell), and a foreign exception class raised while last() is evaluated
on a blank final line (outside Expression.matches and Function.matches)."""
import json
import os

from .. import seams, ops, extfuncs, world as W, diskreader as D
from .common import Out, with_, drop_each, REAL_ALL, STUB_ALL
from . import c09

ID = "C18"
TIERS = {"quick": {"n": 320, "chunk": 4}, "thorough": {"n": 9000, "chunk": 20, "wall_cap": 3300}}
RULE = (
    "each scenario: file of 2-8 records (blanks anywhere), 1-4 members with seeded scan windows, one of 7 run forms, abort kind in {exception in a function, chained exception in a function, argument mismatch from a planted cell, date() on an unparsable planted cell, validation-mode: raise on one member, "
    "collect() projection on a short record, raw exception under last() on a blank final line}, "
    "policy with raise (+/- collect, stop, fail, print, quiet); the fault-free run is recorded, then the run is repeated with the abort armed at every (member, line) evaluation event in turn (complete sweep per scenario), each "
    "followed by a recovery run on the same instance (clock +0s or +1s). evaluations counts scenarios; abort_points counts aborted runs. Non-trivial = at least one abort point; distinct = (method, #members, abort kind, policy, "
    "position classes covered: first/last scanned line, first/last member, after a blank)."
)
ASSUMPTIONS = [
    "the clause 'errors.json contains the aborting error' is asserted only when the effective policy collects errors (C05: an error record exists iff 'collect')",
    "members that never started (serial run aborted in an earlier member) are not required to have a directory",
    "in a breadth-first abort the aborting member and the members ordered after it whose scan reaches the abort line are required to say completed: false; members ordered before it may legitimately have finished on that record",
]
REAL = REAL_ALL
STUB = STUB_ALL + c09.STUB[-1:]

KINDS = ["exc_match", "exc_match", "arg_type", "vmode_raise", "limit_raise", "exc_chained", "date_raise", "lasts_exc"]
CELL = ("arg_type", "limit_raise", "date_raise")  # kinds whose fault is a planted cell, not an armed simfault
POLICIES = [["raise", "collect"], ["raise", "collect", "print"], ["raise", "collect", "stop", "fail", "print"], ["raise", "collect", "fail"], ["raise", "collect", "quiet"], ["raise"], ["raise", "print"]]


def generate(rng, i, tier):
    nrec = rng.randint(2, 8)
    blanks = sorted(l for l in range(1, nrec) if rng.random() < 0.15)
    k = rng.choice([1, 2, 2, 3, 4])
    scans = []
    for _ in range(k):
        sk = rng.choice(["*", "*", "1*", "N*", "a-b"])
        if sk == "N*":
            sk = f"{rng.randint(0, nrec - 1)}*"
        elif sk == "a-b":
            a = rng.randint(0, nrec - 1)
            sk = f"{a}-{rng.randint(a + 1, nrec)}"
        scans.append(sk)
    kind = rng.choice(KINDS)
    if kind in CELL:
        # the header record is itself an argument mismatch for add() (and must stay whole for collect()): keep line 0 out of every window
        fixed = []
        for sk in scans:
            if sk == "*":
                sk = "1*"
            elif sk.endswith("*"):
                sk = f"{max(1, int(sk[:-1]))}*"
            else:
                a, b = sk.split("-")
                sk = f"{max(1, int(a))}-{max(2, int(b))}"
            fixed.append(sk)
        scans = fixed
    policy = rng.choice(POLICIES)
    method = rng.choice(ops.METHODS)
    if kind == "limit_raise":
        # the failure is raised by CsvPath.limit_collection() for a matched line that lacks a projected column: it never
        # passes through a match expression.  Serial run forms only: in a breadth-first run the narrowed line of one member
        # is what the next member receives (projection is outside C08's statement), so a fault-free run does not exist there.
        method = rng.choice(ops.SERIAL)
        if rng.random() < 0.4:
            # ... except for a group of ONE member, where nobody else can receive the narrowed line
            k = 1
            scans = scans[:1]
            method = rng.choice(ops.SERIAL + ["collect_by_line", "collect_by_line"])  # (the non-collecting by-line forms never narrow a line)
    vm = None
    if kind == "vmode_raise":
        policy = rng.choice([["collect"], ["collect", "print"], ["collect", "fail"]])
        vm = rng.randrange(k)
    return {
        "seed": rng.getrandbits(32),
        "nrec": nrec,
        "blanks": blanks,
        "scans": scans,
        "prints": [rng.random() < 0.4 for _ in range(k)],
        # files-mode: the result files a member is expected to leave (an aborted member may well lack them)
        "files_modes": [(rng.choice(["all", "data", "data, unmatched", "printouts", "unmatched", "data, printouts, unmatched"]) if rng.random() < 0.2 else None) for _ in range(k)],
        "method": method,
        "kind": kind,
        "policy": policy,
        "vmode_member": vm,
        "recovery_tick_s": rng.choice([0, 0, 1]),
        "only": None,
    }


def reductions(sc):
    pts = points(sc)
    if sc.get("only") is None and len(pts) > 1:
        for p in pts:
            yield with_(sc, only=[list(p)])
    k = len(sc["scans"])
    if k > 1:
        for j in range(k):
            if sc["vmode_member"] == j:
                continue
            c = with_(sc)
            del c["scans"][j]
            del c["prints"][j]
            if c.get("files_modes"):
                del c["files_modes"][j]
            if c["vmode_member"] is not None and c["vmode_member"] > j:
                c["vmode_member"] -= 1
            if c.get("only"):
                c["only"] = [[m if m < j else m - 1, l] for m, l in c["only"] if m != j]
                if not c["only"]:
                    continue
            yield c
    if sc["blanks"]:
        yield with_(sc, blanks=[])
    if any(sc["prints"]):
        yield with_(sc, prints=[False] * k)
    if any(sc.get("files_modes") or []):
        yield with_(sc, files_modes=[None] * k)
    if sc["method"] != "collect_paths":
        yield with_(sc, method="collect_paths")
    for j, s in enumerate(sc["scans"]):
        simplest = "1*" if sc["kind"] in CELL else "*"
        if s != simplest:
            c = with_(sc)
            c["scans"][j] = simplest
            yield c
    if sc["recovery_tick_s"]:
        yield with_(sc, recovery_tick_s=0)
    if sc["nrec"] > 2:
        c = with_(sc, nrec=sc["nrec"] - 1)
        c["blanks"] = [b for b in c["blanks"] if b < c["nrec"]]
        if c.get("only"):
            c["only"] = [[m, l] for m, l in c["only"] if l < c["nrec"]]
            if not c["only"]:
                return
        yield c


def scanned(sc, j):
    n = sc["nrec"]
    s = sc["scans"][j]
    if s == "*":
        inc = range(n)
    elif s.endswith("*"):
        inc = range(int(s[:-1]), n)
    else:
        a, b = s.split("-")
        inc = range(int(a), int(b) + 1)
    if sc["kind"] == "lasts_exc":
        # the file ends with a blank line (index n): that is where last() fires, outside every match expression
        return [l for l in inc if l < n and l not in sc["blanks"]] + ([n] if n in inc or s.endswith("*") else [])
    return [l for l in inc if l < n and l not in sc["blanks"]]


def points(sc):
    """All (member, line) abort points of the scenario."""
    pts = []
    for j in range(len(sc["scans"])):
        if sc["kind"] == "vmode_raise" and j != sc["vmode_member"]:
            continue
        for l in scanned(sc, j):
            if sc["kind"] in CELL and l == 0:
                continue
            if sc["kind"] == "lasts_exc" and l != sc["nrec"]:
                continue
            pts.append((j, l))
    return pts


def member_text(sc, j):
    head = f"id:m{j}"
    if sc["kind"] == "vmode_raise" and sc["vmode_member"] == j:
        head += " validation-mode:raise"
    fm = (sc.get("files_modes") or [None] * (j + 1))[j] if j < len(sc.get("files_modes") or []) else None
    if fm:
        head += f" files-mode:{fm}"
    prov = {
        "arg_type": f"@s = add(#n{j}, 1)",
        "limit_raise": f'collect("id", "n{j}")',
        "date_raise": f'date(#n{j}, "%Y-%m-%d")',
        "exc_chained": 'simfault("schain")',
        "lasts_exc": 'last() -> @x = simfaultv("s")',
    }.get(sc["kind"], 'simfault("s")')
    pr = f' print("m{j} at $.csvpath.line_number")' if sc["prints"][j] else ""
    return f'~{head}~ $[{sc["scans"][j]}][ push("pre", line_number()) {prov} @c = count(){pr} ]'


def build_rows(sc, bad=None):
    k = len(sc["scans"])
    hdr = ["id"] + [f"n{j}" for j in range(k)]
    rows = [hdr]
    for l in range(1, sc["nrec"]):
        if l in sc["blanks"]:
            rows.append([])
            continue
        if sc["kind"] == "date_raise":
            row = [f"r{l}"] + [("zz" if bad == (j, l) else f"2024-0{(l + j) % 9 + 1}-1{j}") for j in range(k)]
        else:
            row = [f"r{l}"] + [("zz" if (bad == (j, l) and sc["kind"] == "arg_type") else str((l * 3 + j) % 9 + 1)) for j in range(k)]
        if sc["kind"] == "limit_raise" and bad is not None and bad[1] == l:
            row = row[: bad[0] + 1]  # the record ends before member bad[0]'s column
        rows.append(row)
    if sc["kind"] == "lasts_exc":
        rows.append([])
    return rows


def _member_snapshot(d):
    m = D.read_member(d)
    return {
        "problems": m["problems"],
        "vars": m.get("vars"),
        "data": m.get("data"),
        "unmatched": m.get("unmatched"),
        "printouts": m.get("printouts"),
        "errors": [(e.get("line_count"), e.get("error")) for e in (m.get("errors") or [])],
        "valid": (m.get("manifest") or {}).get("valid"),
        "completed": (m.get("manifest") or {}).get("completed"),
    }


def _setup(sc, w, bad=None):
    w.write_csv("src/f.csv", build_rows(sc, bad))
    cs = ops.new_csvpaths()
    with ops.quiet():
        cs.file_manager.add_named_file(name="f", path="src/f.csv")
        cs.paths_manager.add_named_paths(name="g", paths=[member_text(sc, j) for j in range(len(sc["scans"]))])
    return cs


def execute(sc):
    out = Out()
    c09.install_tee()
    k = len(sc["scans"])
    meth = sc["method"]
    byline = meth in ops.BYLINE
    members = [{"id": f"m{j}"} for j in range(k)]
    collects = "collect" in sc["policy"]
    # ---- fault-free reference run ----
    seams.reset(sc["seed"])
    with W.World(csvpath_policy=sc["policy"]) as w:
        cs = _setup(sc, w)
        extfuncs.arm()
        c09.TEE.clear()
        ops.run_group(cs, meth, "g")
        out.runs += 1
        ref_dir = ops.results_of(cs, "g")[0].run_dir
        c09.check_run_archive(out, cs, "g", members, "fault-free run", collecting=meth in ops.COLLECTING, facts={"phase": "fault_free"})
        ref = {f"m{j}": _member_snapshot(os.path.join(ref_dir, f"m{j}")) for j in range(k)}
        if out.violations:
            return out.done()
    pts = points(sc)
    if sc.get("only") is not None:
        pts = [tuple(p) for p in sc["only"] if tuple(p) in set(pts)]
    classes = set()
    for (i, L) in pts:
        seams.reset(sc["seed"])
        S = scanned(sc, i)
        at_last = bool(S) and L == S[-1]
        site = "schain" if sc["kind"] == "exc_chained" else "s"
        facts = {"method": meth, "kind": sc["kind"], "at_last_scanned_line": at_last, "byline": byline}
        classes.update(
            x
            for x, c in (("first_line", L == S[0]), ("last_line", at_last), ("first_member", i == 0), ("last_member", i == k - 1), ("after_blank", (L - 1) in sc["blanks"]))
            if c
        )
        where = f"{meth} policy {sc['policy']} kind {sc['kind']} abort at member m{i} line {L} (scans {sc['scans']}, blanks {sc['blanks']})"
        with W.World(csvpath_policy=sc["policy"]) as w:
            cs = _setup(sc, w, bad=(i, L) if sc["kind"] in CELL else None)
            stores = W.tree_hashes("inputs")
            extfuncs.arm(plan=[] if sc["kind"] in CELL else [(f"m{i}", L, site)])
            c09.TEE.clear()
            exc = None
            try:
                ops.run_group(cs, meth, "g")
            except Exception as e:  # noqa: BLE001
                exc = e
            out.runs += 1
            out.fault("abort")
            out.extra["abort_points"] = out.extra.get("abort_points", 0) + 1
            if exc is None:
                out.v("abort_swallowed", f"{where}: the run method returned normally; the exception did not reach the caller", **facts)
                continue
            try:
                run_dir = ops.results_of(cs, "g")[0].run_dir
            except Exception as e:  # noqa: BLE001
                out.v("no_results_after_abort", f"{where}: no in-memory results after the abort: {ops.exc_sig(e)}", **facts)
                continue
            run = D.read_run(run_dir)
            man = run["manifest"]
            if man is None:
                out.v("run_manifest_unreadable", f"{where}: {run['problems']}", **facts)
            elif man.get("status") == "complete":
                out.v("status_complete_after_abort", f"{where}: run manifest claims status complete", **facts)
            started = range(k) if byline else range(i + 1)
            for j in started:
                d = os.path.join(run_dir, f"m{j}")
                snap = _member_snapshot(d)
                mw = f"{where}: member m{j}"
                if snap["problems"]:
                    out.v("member_unreadable_after_abort", f"{mw}: {snap['problems']}", aborting=j == i, **facts)
                    continue
                if j == i:
                    if collects and not any(e[0] == L for e in snap["errors"]):
                        out.v("aborting_error_missing", f"{mw}: errors.json {snap['errors']!r:.300} has no error with line number {L}", **facts)
                    if not collects and snap["errors"]:
                        out.v("error_collected_without_collect", f"{mw}: errors.json {snap['errors']!r:.200} although the policy does not collect", **facts)
                    if snap["completed"] is not False:
                        out.v("aborted_member_completed", f"{mw}: manifest says completed: {snap['completed']} for the member the run aborted in", **facts)
                elif byline and j > i:
                    # breadth-first: a member ordered after the aborting one never considered line L; if its scan
                    # reaches L or beyond it was cut short
                    Sj = scanned(sc, j)
                    if Sj and Sj[-1] >= L and snap["completed"] is not False:
                        out.v("later_member_completed", f"{mw} (ordered after the aborting member, scan reaches line {Sj[-1]}) was cut short before line {L} but its manifest says completed: {snap['completed']}", **facts)
                elif not byline:
                    # finished earlier: must equal the fault-free run's record
                    r0 = ref[f"m{j}"]
                    # under arg_type the data file differs from the reference run in one cell, which shows in data/unmatched rows only
                    keys = ("vars", "printouts", "errors", "valid", "completed") if sc["kind"] in CELL else ("vars", "data", "unmatched", "printouts", "errors", "valid", "completed")
                    for key in keys:
                        if json.dumps(snap[key], sort_keys=True) != json.dumps(r0[key], sort_keys=True):
                            out.v("earlier_member_incomplete", f"{mw} finished before the abort but its {key} {snap[key]!r:.200} differs from the fault-free run {r0[key]!r:.200}", field=key, **facts)
                            break
                    else:
                        if len(snap["data"] or []) != len(r0["data"] or []):
                            out.v("earlier_member_incomplete", f"{mw} finished before the abort but has {len(snap['data'] or [])} data lines, fault-free run {len(r0['data'] or [])}", field="data", **facts)
            if W.tree_hashes("inputs") != stores:
                out.v("stores_changed", f"{where}: inputs/ (named files / named paths) changed during the aborted run", **facts)
            # ---- recovery: the next run on the same instance archives normally ----
            extfuncs.arm()
            if sc["kind"] in CELL:
                # the recovery run needs a file without the bad cell: re-register the clean file
                w.write_csv("src/f.csv", build_rows(sc))
                with ops.quiet():
                    cs.file_manager.add_named_file(name="f", path="src/f.csv")
            if sc["recovery_tick_s"]:
                seams.SimClock.advance(seconds=sc["recovery_tick_s"])
                out.fault("clock_forward")
            before = W.tree_hashes("archive")
            c09.TEE.clear()
            try:
                ops.run_group(cs, meth, "g")
            except Exception as e:  # noqa: BLE001
                out.v("recovery_run_failed", f"{where}: the following fault-free run on the same instance raised {ops.exc_sig(e)}", **facts)
                continue
            out.runs += 1
            rdir = ops.results_of(cs, "g")[0].run_dir
            if rdir == run_dir:
                out.v("recovery_reused_run_dir", f"{where}: the following run wrote into the aborted run's directory {run_dir}", **facts)
            else:
                after = W.tree_hashes("archive")
                changed = [p for p, h in before.items() if p.startswith(run_dir + os.sep) and after.get(p) != h]
                if changed:
                    out.v("recovery_modified_aborted_run", f"{where}: the following run changed {changed[:3]} of the aborted run", **facts)
            c09.check_run_archive(out, cs, "g", members, where + " / recovery run", collecting=meth in ops.COLLECTING, facts=dict(facts, phase="recovery"))
        # (the recorded known finding - completed: true after an abort on the last scanned line - does not end the sweep)
        if any(not (v["clause"] == "aborted_member_completed" and v["facts"].get("at_last_scanned_line")) for v in out.violations):
            break
    out.sig = [meth, k, sc["kind"], sc["policy"], sorted(classes)]
    out.nontrivial = bool(pts)
    for c in ("first_line", "last_line", "first_member", "last_member", "after_blank"):
        out.probe(f"abort point class {c}", c in classes)
    out.extra.setdefault("abort_points", 0)
    out.log(pts, ref, len(out.violations))
    return out.done()

"""C07 - collect(), next() and fast_forward() are the same run.

The only 'schedule' here is the consumer: next() is a generator and the
simulator decides after how many yields the consumer stops.  Reference trace:
next() stepped one yield at a time with a state snapshot after every yield and
after exhaustion.  Twins: collect(), fast_forward() and collect(nexts=n) for
every n in 1..matches+1 on fresh instances."""
import copy
import json

from .. import seams, ops, gen, world as W
from .common import Out, with_, REAL_ALL, STUB_ALL

ID = "C07"
TIERS = {"quick": {"n": 2500, "chunk": 40}, "thorough": {"n": 60000, "chunk": 150, "wall_cap": 3300}}
RULE = (
    "each scenario: a generated file and one generated csvpath (1-6 components incl. stop/skip/advance/last/print/fail and erroring add()), a non-raising error policy; executed as next() (stepped), collect(), "
    "fast_forward() and collect(nexts=n) for every n in 1..matches+1. Non-trivial = the csvpath matched at least one line and has a side effect; distinct = (feature set, #matches, #records, blank pattern, policy)."
)
ASSUMPTIONS = [
    "self-relative oracle: the three entry points are compared with each other, not with an independent semantics of the language (that is C01/C03/C13)",
    "error policy never contains 'raise' (an exception out of collect() returns nothing by definition)",
]
REAL = REAL_ALL
STUB = STUB_ALL

POLICIES = [["collect", "print"], ["collect"], ["collect", "fail"], ["collect", "stop", "print"], ["print"], ["collect", "fail", "stop", "print"], ["collect", "quiet"], ["quiet", "fail", "print"]]


def generate(rng, i, tier):
    rows = gen.gen_rows(rng, nasty=rng.random() < 0.3, extra_cells=[" 2", "x ", "  ", " a b "], ws_lines=True)
    modes = {}
    if rng.random() < 0.2:
        modes["return-mode"] = "no-matches"
    if rng.random() < 0.15:
        modes["logic-mode"] = "OR"
    if rng.random() < 0.15:
        modes["unmatched-mode"] = "keep"
    if rng.random() < 0.06:
        modes["run-mode"] = "no-run"
    m = gen.gen_member(rng, rows[0], len(rows), "m0", max_comps=6, modes=modes, zoo_p=0.5, zoo_pool=gen.ZOO)
    if rng.random() < 0.06:
        # the header row is taken anew from some line (reset_headers) and a column is appended on the lines after it
        k1 = rng.randint(0, 2)
        m["comps"].insert(0, f"line_number.nocontrib() == {k1} -> reset_headers()")
        m["comps"].append(rng.choice(['append("extra", line_number())', f'line_number.nocontrib() == {k1 + rng.randint(1, 3)} -> append("extra", line_number())']))
    if rng.random() < 0.2:
        # narrow the returned line with collect(): columns that exist, and sometimes one that a short line lacks
        ncol = len(rows[0])
        cols = sorted(rng.sample(range(ncol + (1 if rng.random() < 0.3 else 0)), rng.randint(1, min(2, ncol))))
        m["comps"].insert(rng.randint(0, len(m["comps"])), "collect(" + ", ".join((f"{c}" if rng.random() < 0.5 or c >= ncol else f'"{rows[0][c]}"') for c in cols) + ")")
        if rng.random() < 0.85:
            # (projection together with unmatched-mode: keep is a known finding - keep most runs away from it)
            (m.get("modes") or {}).pop("unmatched-mode", None)
    return {
        "seed": rng.getrandbits(32),
        "rows": rows,
        "member": m,
        "policy": rng.choice(POLICIES),
        "dialect": rng.choice([[",", '"']] * 4 + [[";", '"'], [",", "'"]]),
        # every CsvPath of the scenario created by ONE CsvPaths instance (they then share its file cacher)
        "via": rng.random() < 0.3,
        "pre_advance": rng.choice([0] * 6 + [1, 2, 3]),
        # blank records are matched like any other line instead of being skipped
        "keep_blank_lines": rng.random() < 0.12,
    }


def reductions(sc):
    for rows in gen.rows_reductions(sc["rows"]):
        yield with_(sc, rows=rows)
    for mm in gen.member_reductions(sc["member"]):
        yield with_(sc, member=mm)
    for k in list((sc["member"].get("modes") or {})):
        c = with_(sc)
        del c["member"]["modes"][k]
        yield c
    if sc["dialect"] != [",", '"']:
        yield with_(sc, dialect=[",", '"'])
    if sc.get("pre_advance"):
        yield with_(sc, pre_advance=0)
    if sc.get("via"):
        yield with_(sc, via=False)
    if sc.get("keep_blank_lines"):
        yield with_(sc, keep_blank_lines=False)


def _st(cp, printed):
    return copy.deepcopy(
        {
            "variables": ops.jsonable(cp.variables),
            "printouts": list(printed),
            "is_valid": cp.is_valid,
            "scan_count": cp.scan_count,
            "match_count": cp.match_count,
            "stopped": cp.stopped,
            "errors": ops.norm_errors(cp.errors),
        }
    )


def _j(o):
    return json.dumps(o, sort_keys=True, default=str)


def _first_diff(a, b):
    for k in a:
        if _j(a[k]) != _j(b[k]):
            return f"{k}: {_j(a[k])[:250]} vs {_j(b[k])[:250]}"
    return None


def execute(sc):
    from csvpath.util.printer import TestPrinter
    from ..sim import CsvPath

    out = Out()
    seams.reset(sc["seed"])
    delim, quote = sc["dialect"]
    pk = (sc["member"].get("modes") or {}).get("unmatched-mode") == "keep" and any(c.startswith("collect(") for c in sc["member"]["comps"])
    _v = out.v

    def v_with_fact(clause, detail, **facts):
        _v(clause, detail, projection_with_unmatched_keep=bool(pk), **facts)

    out.v = v_with_fact
    with W.World(csvpath_policy=sc["policy"]) as w:
        w.write_csv("src/f.csv", sc["rows"], delimiter=delim, quotechar=quote)
        text = gen.render(sc["member"], "src/f.csv")

        shared = ops.new_csvpaths(delim, quote) if (sc.get("via") and not sc.get("keep_blank_lines")) else None

        def mk():
            cp = shared.csvpath() if shared is not None else CsvPath(delimiter=delim, quotechar=quote, skip_blank_lines=not sc.get("keep_blank_lines"))
            tp = TestPrinter()
            cp.add_printer(tp)
            if sc.get("pre_advance"):
                # the public way of skipping preamble lines before a run: parse(), advance(k), then the entry point
                cp.parse(text)
                cp.advance(sc["pre_advance"])
            return cp, tp

        arg = () if sc.get("pre_advance") else (text,)

        with ops.quiet():
            try:
                cp, tp = mk()
                snaps, yielded, kept = [], [], []
                next_exc = None
                try:
                    for line in cp.next(*arg):
                        kept.append(line)  # the very objects the generator handed out, as `list(cp.next())` would keep them
                        yielded.append(list(line))
                        snaps.append(_st(cp, tp.lines))
                        out.fault("consumer_step")
                except Exception as e:  # noqa: BLE001
                    if not ops.in_repo(e) or type(e).__name__ in ("VisitError", "UnexpectedCharacters", "UnexpectedEOF", "ParsingException", "UnexpectedToken"):
                        raise
                    next_exc = ops.exc_sig(e)
                fin = _st(cp, tp.lines)
                if [list(x) for x in kept] != yielded:
                    out.v("yielded_lines_mutated", f"{text!r}: lines kept from next() read {[list(x) for x in kept]!r:.300} after the run, they were {yielded!r:.300} when yielded")
            except Exception as e:  # noqa: BLE001
                if ops.in_repo(e) and type(e).__name__ in ("VisitError", "UnexpectedCharacters", "UnexpectedEOF", "ParsingException", "UnexpectedToken"):
                    out.discard = True
                    return out.done()
                raise
            out.runs += 1
            def attempt(fn):
                try:
                    return fn(), None
                except Exception as e:  # noqa: BLE001
                    if not ops.in_repo(e):
                        raise
                    return None, ops.exc_sig(e)

            cp, tp = mk()
            got, cexc = attempt(lambda: [list(x) for x in cp.collect(*arg)])
            sc_ = _st(cp, tp.lines)
            out.runs += 1
            if (cexc is None) != (next_exc is None):
                out.v("entry_points_disagree_on_raising", f"{text!r}: next() {'raised ' + next_exc if next_exc else 'returned'}, collect() {'raised ' + cexc if cexc else 'returned'}")
            if cexc is None and got != yielded:
                out.v("collect_lines", f"{text!r}: collect() returned {got!r:.300}, next() yielded {yielded!r:.300}")
            d = _first_diff(fin, sc_)
            if d:
                out.v("collect_state", f"{text!r}: state after collect() differs from next(): {d}", field=d.split(":")[0])
            cp, tp = mk()
            _, fexc = attempt(lambda: cp.fast_forward(*arg))
            sf = _st(cp, tp.lines)
            out.runs += 1
            if (fexc is None) != (next_exc is None):
                out.v("entry_points_disagree_on_raising", f"{text!r}: next() {'raised ' + next_exc if next_exc else 'returned'}, fast_forward() {'raised ' + fexc if fexc else 'returned'}")
            d = _first_diff(fin, sf)
            if d:
                out.v("fast_forward_state", f"{text!r}: state after fast_forward() differs from next(): {d}", field=d.split(":")[0])
            for n in range(1, len(yielded) + 2):
                cp, tp = mk()
                ln, nexc = attempt(lambda: [list(x) for x in cp.collect(*arg, nexts=n)])
                if nexc is not None:
                    if n <= len(yielded):
                        out.v("nexts_raised", f"{text!r}: collect(nexts={n}) raised {nexc} although next() yielded {len(yielded)} lines before any exception")
                    break
                s = _st(cp, tp.lines)
                out.runs += 1
                out.fault("cancel")
                exp = snaps[n - 1] if n <= len(snaps) else fin
                if ln != yielded[:n]:
                    out.v("nexts_lines", f"{text!r}: collect(nexts={n}) returned {ln!r:.300}, first {n} of collect() are {yielded[:n]!r:.300}", beyond=n > len(yielded))
                    break
                d = _first_diff(exp, s)
                if d:
                    out.v("nexts_side_effect", f"{text!r}: after collect(nexts={n}) of {len(yielded)} the state is not the state next() had at yield {n}: {d}", field=d.split(":")[0], beyond=n > len(yielded))
                    break
        feats = sorted({k for c in sc["member"]["comps"] for k in ("stop()", "skip()", "advance(", "fail()", "print(", "last()", "push(", "tally(", "onmatch", "add(") if k in c})
        feats += sorted((sc["member"].get("modes") or {}).values())
        feats += sorted({c.split("(")[0].split("=")[-1].strip(" @#") for c in sc["member"]["comps"] if "(" in c})[:6]
        out.sig = [feats, len(yielded), len(sc["rows"]), "".join("b" if r == [] else "r" for r in sc["rows"])[:12], sc["policy"]]
        out.nontrivial = bool(yielded) and (bool(fin["variables"]) or bool(fin["printouts"]) or not fin["is_valid"])
        out.probe("all instances created by one CsvPaths", bool(sc.get("via")))
        out.probe("parse() + advance(k) before the entry point", bool(sc.get("pre_advance")))
        out.probe("skip_blank_lines=False over a file with an interior blank record", bool(sc.get("keep_blank_lines")) and any(r == [] for r in sc["rows"][1:-1]))
        out.probe("stopped before the end of the file", fin["stopped"] and bool(yielded))
        out.probe("errors during the run", bool(fin["errors"]))
        out.log(yielded, fin, len(out.violations))
    return out.done()

"""C19 - results depend only on the csvpath, the file and the configuration.

Workload: a history of 2-6 jobs run one after another inside ONE process
(standalone CsvPath, CsvPaths().csvpath(), or a one-member named-paths run) over
files whose header cells contain quotes, spaces, newlines and delimiters; jobs
repeat files and csvpaths; the world's cache/ is empty or was populated by an
earlier process.  Oracle: every job's normalised result tuple equals that of the
same job run as the first and only job of a pristine process over a twin world
with an empty cache; a directly created CsvPath equals one created by a
CsvPaths.

Process model: the pool worker that executes a C19 scenario never parses or
runs a csvpath itself - it imported csvpath and registered the harness functions
and stays a pristine zygote.  The history runs in one forked child of it, every
twin in another forked child."""
import json
import os

from .. import seams, ops, gen, extfuncs, world as W
from ..forkutil import fork_call
from .common import Out, with_, drop_each, REAL_ALL, STUB_ALL

ID = "C19"
TIERS = {"quick": {"n": 640, "chunk": 10}, "thorough": {"n": 16000, "chunk": 50, "wall_cap": 3300}}
RULE = (
    "each scenario: 1-3 generated files (header cells drawn from plain names, names with spaces, quotes, leading quote, embedded newline, delimiter-like characters), 2-6 jobs drawn with repetition from "
    "{direct CsvPath, CsvPaths().csvpath(), one-member named run} x {collect, next, fast_forward} x generated csvpaths, cache cold or warmed by an earlier process; each job is compared with its pristine-process twin "
    "and (direct/via jobs) with the other creation path. Non-trivial = a job ran after another job or over a warm cache; distinct = (job kinds sequence, file reuse pattern, warm/cold, header nastiness classes)."
)
ASSUMPTIONS = [
    "the 'pristine process' is a fork of a zygote that has imported csvpath and registered the harness functions but never constructed, parsed or ran anything (cross-checked against real fresh interpreters by the determinism re-execution of every batch)",
    "files are not rewritten in place between jobs (the cache is keyed by path only) and [functions] imports does not change between jobs: both are outside the statement's quantifier",
    "time- and random-valued functions are never generated",
]
REAL = REAL_ALL
STUB = STUB_ALL + ["process boundaries are os.fork() of a pristine zygote rather than exec of a new interpreter"]

HEADER_POOL = ["h{}", "h {}", 'say "hi" {}', '"q{}"', "two\nlines {}", " lead{}", "x;y{}", "p|q{}", "t`{}", "üml{}", "'s{}'", "tab\t{}", ", name{}", "city{} ;", "| x{} |", "` tick{}", "a{},  ", "form\x0cfeed{}", "ls\u2028sep{}", "nel\x85x{}", "fs\x1cgs\x1d{}"]
NASTY_CLASS = {0: "plain", 1: "space", 2: "inner_quote", 3: "leading_quote", 4: "newline", 5: "lead_space", 6: "semicolon", 7: "pipe", 8: "backtick", 9: "nonascii", 10: "single_quote", 11: "tab",
               12: "delim_then_space", 13: "space_then_delim", 14: "delim_space_both", 15: "backtick_space", 16: "comma_spaces", 17: "form_feed", 18: "line_separator", 19: "next_line", 20: "file_separator"}


LIT_COMPS = ['@ws = "a b"', 'print("line  $.csvpath.line_number of a b")', '#1 == "ann lee"', 'not(#1 == "ann  lee")', '@w2 = concat("x y", " ", #1)', 'in(#1, "ann lee|bob  ray")']


def ws_sibling(m):
    """The same member with the blanks inside its string literals doubled (or halved): a different csvpath
    that any cache keyed on whitespace-normalised text would confuse with the original."""
    import copy
    import re

    def flip(mt):
        body = mt.group(1)
        if "  " in body:
            return '"' + body.replace("  ", " ") + '"'
        return '"' + body.replace(" ", "  ") + '"'

    c = copy.deepcopy(m)
    c["comps"] = [re.sub(r'"([^"\n]*)"', flip, comp) for comp in c["comps"]]
    return c if c["comps"] != m["comps"] else None


def generate(rng, i, tier):
    nfiles = rng.randint(1, 3)
    files = []
    for f in range(nfiles):
        ncol = rng.randint(2, 4)
        picks = [rng.randrange(len(HEADER_POOL)) if rng.random() < 0.6 else 0 for _ in range(ncol - 1)]
        hdr = ["id"] + [HEADER_POOL[p].format(c + 1) for c, p in enumerate(picks)]
        # (cells that make date parsing emit Python warnings: whether those are errors is process-global state)
        rows = gen.gen_rows(rng, hdr=hdr, min_rec=0 if rng.random() < 0.15 else 1, trailing_blank_p=0.1, nasty=rng.random() < 0.3, extra_cells=["2024-03-05 10:30 PST", "2024-01-01", "12/31/2024 7pm EST", "1 Jan 2024 09:00 XYZ", "ann lee", "ann  lee", "bob  ray"])
        if rng.random() < 0.03 and len(rows) > 2:
            # one data cell larger than the csv module's default field size limit (128 KiB)
            big = [r for r in rows[1:] if r]
            if big:
                rng.choice(big)[-1] = "x" * 140000
        if rng.random() < 0.08:
            rows = [[]] + rows  # a blank first physical line: the header row is the first line that has data
        files.append({"rows": rows, "classes": sorted({NASTY_CLASS[p] for p in picks}), "dialect": rng.choice([[",", '"']] * 3 + [[";", '"'], ["|", "'"]])})
    njobs = rng.randint(2, 6)
    jobs = []
    progs = []
    for j in range(njobs):
        fi = rng.randrange(nfiles)
        ncol = len(next(r for r in files[fi]["rows"] if r))
        if progs and rng.random() < 0.35:
            prev = rng.choice(jobs)
            if rng.random() < 0.5:
                jobs.append(dict(prev))  # exact repeat
                continue
            fi, m = prev["file"], prev["member"]
            sib = ws_sibling(m) if rng.random() < 0.5 else None
            if sib is not None:
                m = sib
        else:
            m = gen.gen_member(rng, ["id"] + [str(c) for c in range(1, ncol)], len(files[fi]["rows"]), None, max_comps=3, zoo_p=0.85, zoo_pool=gen.ZOO_SAFE, zoo_n=(2, 5))
            if rng.random() < 0.2:
                # append()/replace() change the headers or the line in place: nothing of that may survive into another job
                m["comps"].insert(rng.randint(0, len(m["comps"])), gen.zoo_comp(rng, ["id"] + [str(c) for c in range(1, ncol)], 40 + j, gen.ZOO_REWRITE))
            if rng.random() < 0.12:
                # mode settings in the comment: the list of expected result files, kept unmatched lines
                m["modes"] = {"files-mode": rng.choice(["all", "data", "data, unmatched", "printouts", "unmatched", "data, printouts, unmatched"])}
                if rng.random() < 0.5:
                    m["modes"]["unmatched-mode"] = "keep"
            if rng.random() < 0.3:
                # literals with blanks in them (see ws_sibling)
                m["comps"].insert(rng.randint(0, len(m["comps"])), rng.choice(LIT_COMPS))
            if rng.random() < 0.3:
                m["comps"].append(rng.choice(["@nh = count_headers()", 'print("$.csvpath.headers")', "@hn = header_name(1)"]))
        progs.append(m)
        kind = rng.choice(["direct", "via", "via", "named", "via_shared", "via_shared", "chain"])
        jobs.append(
            {
                "kind": kind,
                "entry": rng.choice(["collect", "collect", "next", "fast_forward"]),
                "file": fi,
                "member": m,
                # a directly created CsvPath may carry its own configuration object
                "policy": rng.choice([["collect"], ["collect", "fail", "print"], ["stop", "collect"], ["print"]]) if kind == "direct" and rng.random() < 0.4 else None,
            }
        )
    if rng.random() < 0.1:
        # an external function, known only through the '[functions] imports' file of ONE job's own Config - and, before
        # that job, a csvpath that names a function nobody knows (its parse fails; that must not decide anything for later jobs)
        fi = rng.randrange(nfiles)
        typo = {"kind": rng.choice(["direct", "via", "named"]), "entry": "collect", "file": fi, "member": {"id": None, "scan": "*", "comps": ["nosuchfunction()"]}, "policy": None}
        ext = {"kind": "direct", "entry": rng.choice(["collect", "fast_forward"]), "file": fi, "member": {"id": None, "scan": "*", "comps": ['extprobe("x")', "@n = count()"]}, "policy": ["collect", "print"], "imports": True}
        at = rng.randint(0, len(jobs))
        jobs[at:at] = [typo, ext] if rng.random() < 0.7 else [ext]
    for j in range(len(jobs)):
        if rng.random() < 0.1:
            # the job reads the file with ANOTHER dialect than the one it was written with (legal: the records then
            # split differently); what an earlier job with the right dialect left behind must not matter
            other = [d for d in ([",", '"'], [";", '"'], ["|", "'"]) if d != files[jobs[j]["file"]]["dialect"]]
            jobs[j] = dict(jobs[j], read_as=rng.choice(other))
    for j in range(len(jobs) - 1):
        if rng.random() < 0.06:
            # a transient read error while this job reads its file (the first read-open yields a few lines, then EIO)
            jobs[j] = dict(jobs[j], read_fault=rng.randint(1, 4))
    for j in range(1, len(jobs)):
        if rng.random() < 0.12:
            # the file at that path is REPLACED (other records, maybe another header row) before the job runs
            fi = jobs[j]["file"]
            old = files[fi]["rows"]
            hdr = list(next(r for r in old if r))
            if rng.random() < 0.4 and len(hdr) > 2:
                hdr[1], hdr[-1] = hdr[-1], hdr[1]
            jobs[j] = dict(jobs[j], rewrite=gen.gen_rows(rng, hdr=hdr, min_rec=1, max_rec=len(old) + 4, trailing_blank_p=0.1))
    return {"seed": rng.getrandbits(32), "files": files, "jobs": jobs, "warm": rng.random() < 0.4, "tear": rng.choice([None, None, "csv", "json"]), "policy": rng.choice([["collect", "print"], ["collect"], ["collect", "fail"], ["collect", "stop", "print"]])}


def reductions(sc):
    for cand in drop_each(sc["jobs"], 1):
        yield with_(sc, jobs=cand)
    if sc["warm"]:
        yield with_(sc, warm=False)
    if sc.get("tear"):
        yield with_(sc, tear=None)
    for j, job in enumerate(sc["jobs"]):
        for mm in gen.member_reductions(job["member"]):
            c = with_(sc)
            c["jobs"][j]["member"] = mm
            yield c
        if job["kind"] != "via":
            c = with_(sc)
            c["jobs"][j]["kind"] = "via"
            yield c
        if job["entry"] != "collect":
            c = with_(sc)
            c["jobs"][j]["entry"] = "collect"
            yield c
        if job.get("policy"):
            c = with_(sc)
            c["jobs"][j]["policy"] = None
            yield c
        if job.get("rewrite"):
            c = with_(sc)
            del c["jobs"][j]["rewrite"]
            yield c
        if job.get("read_as"):
            c = with_(sc)
            del c["jobs"][j]["read_as"]
            yield c
        if job.get("read_fault"):
            c = with_(sc)
            del c["jobs"][j]["read_fault"]
            yield c
    for fi, f in enumerate(sc["files"]):
        for rows in gen.rows_reductions(f["rows"]):
            c = with_(sc)
            c["files"][fi]["rows"] = rows
            yield c
        if f.get("dialect", [",", '"']) != [",", '"']:
            c = with_(sc)
            c["files"][fi]["dialect"] = [",", '"']
            yield c
        hdr = f["rows"][0]
        for ci in range(1, len(hdr)):
            if hdr[ci] != f"h{ci}":
                c = with_(sc)
                c["files"][fi]["rows"][0][ci] = f"h{ci}"
                yield c


# --------------------------------------------------------------------------
# what runs inside forked children
# --------------------------------------------------------------------------


SHARED = {}  # per process: (delimiter, quotechar) -> CsvPaths


def run_job(job, jn, dialects):
    """Runs one job in the current process and world; returns its result tuple."""
    from csvpath.util.printer import TestPrinter
    from csvpath.util.config import Config
    from ..sim import CsvPath, CsvPaths

    path = f"src/f{job['file']}.csv"
    m = job["member"]
    delim, quote = job.get("read_as") or dialects[job["file"]]
    try:
        with ops.quiet():
            if job["kind"] in ("direct", "via", "via_shared"):
                if job["kind"] == "via_shared":
                    # one long-lived CsvPaths serves several jobs (its FileCacher keeps line monitors and headers in memory)
                    key = (delim, quote)
                    if key not in SHARED:
                        SHARED[key] = CsvPaths(delimiter=delim, quotechar=quote)
                    cp = SHARED[key].csvpath()
                elif job["kind"] == "direct":
                    cfg = None
                    if job.get("policy"):
                        cfg = Config()
                        cfg.csvpath_errors_policy = list(job["policy"])
                        if job.get("imports"):
                            cfg.function_imports = os.path.abspath(os.path.join("config", "functions.imports"))
                    cp = CsvPath(delimiter=delim, quotechar=quote, config=cfg)
                else:
                    cp = CsvPaths(delimiter=delim, quotechar=quote).csvpath()
                tp = TestPrinter()
                cp.add_printer(tp)
                text = gen.render(m, path)
                if job["entry"] == "collect":
                    lines = [list(x) for x in cp.collect(text)]
                elif job["entry"] == "next":
                    lines = [list(x) for x in cp.next(text)]
                else:
                    cp.fast_forward(text)
                    lines = None
                return ops.path_state(cp, lines=lines, printouts=tp.lines)
            if job["kind"] == "chain":
                # a two-member serial run whose second member reads the first one's data.csv (every run's data file has that basename)
                cs = CsvPaths(delimiter=delim, quotechar=quote)
                name = f"f{job['file']}"
                cs.file_manager.add_named_file(name=name, path=path)
                first = {"id": "c0", "scan": "*", "comps": ["yes()"]}
                second = dict(m, id="c1", modes={"source-mode": "preceding"})
                cs.paths_manager.add_named_paths(name="gc", paths=[gen.render(first), gen.render(second)])
                ops.run_group(cs, "collect_paths", "gc", fname=name)
                out = {}
                for r in cs.results_manager.get_named_results("gc"):
                    st = ops.path_state(r.csvpath, lines=ops.result_lines(r), printouts=r.printouts, errors=r.errors)
                    for k2, v2 in st.items():
                        out[f"{r.identity_or_index}.{k2}"] = v2
                return out
            cs = CsvPaths(delimiter=delim, quotechar=quote)
            name = f"f{job['file']}"
            cs.file_manager.add_named_file(name=name, path=path)
            cs.paths_manager.add_named_paths(name="g", paths=[gen.render(m)])
            meth = {"collect": "collect_paths", "next": "next_paths_collect", "fast_forward": "fast_forward_paths"}[job["entry"]]
            ops.run_group(cs, meth, "g", fname=name)
            r = cs.results_manager.get_named_results("g")[0]
            lines = ops.result_lines(r) if job["entry"] != "fast_forward" else None
            return ops.path_state(r.csvpath, lines=lines, printouts=r.printouts, errors=r.errors)
    except Exception as e:  # noqa: BLE001
        if not ops.in_repo(e):
            raise
        return {"exception": ops.exc_sig(e)}


def _history(root, seed, jobs, dialects):
    os.chdir(root)
    seams.reset(seed)
    extfuncs.arm()
    res = []
    for n, job in enumerate(jobs):
        if job.get("rewrite"):
            d = dialects[job["file"]]
            _write_rows(f"src/f{job['file']}.csv", job["rewrite"], d)
        if job.get("read_fault"):
            with _ReadFault(f"f{job['file']}.csv", job["read_fault"]):
                res.append(run_job(job, n, dialects))
        else:
            res.append(run_job(job, n, dialects))
    return res


class _ReadFault:
    """Transient read error: while active, the first text-mode read-open of the job's data file yields `after` lines
    and then raises EIO (a flaky mount).  Whatever the job makes of it, nothing of it may stick for later jobs."""

    def __init__(self, basename, after):
        self.basename = basename
        self.after = after
        self.fired = 0

    def __enter__(self):
        import builtins

        self.real = real = builtins.open
        me = self

        class Flaky:
            def __init__(self, f):
                self.f = f
                self.n = 0

            def __iter__(self):
                return self

            def __next__(self):
                if self.n >= me.after:
                    me.fired += 1
                    raise OSError(5, "Input/output error (simulated)")
                self.n += 1
                return next(self.f)

            def __enter__(self):
                self.f.__enter__()
                return self

            def __exit__(self, *a):
                return self.f.__exit__(*a)

            def __getattr__(self, name):
                return getattr(self.f, name)

        st = {"done": False}

        def opener(file, mode="r", *a, **kw):
            f = real(file, mode, *a, **kw)
            if not st["done"] and isinstance(file, str) and os.path.basename(file) == me.basename and mode in ("r", "rt"):
                st["done"] = True
                return Flaky(f)
            return f

        builtins.open = opener
        return self

    def __exit__(self, *a):
        import builtins

        builtins.open = self.real
        return False


def _write_rows(path, rows, d):
    import csv

    with open(path, "w", newline="", encoding="utf-8") as f:
        wr = csv.writer(f, delimiter=d[0], quotechar=d[1], lineterminator="\n")
        for r in rows:
            wr.writerow(r)


def _warm(root, seed, nfiles, dialects):
    """An earlier process: populates cache/ the way a user's previous session would."""
    from ..sim import CsvPaths

    os.chdir(root)
    seams.reset(seed + 1)
    with ops.quiet():
        for f in range(nfiles):
            try:
                cs = CsvPaths(delimiter=dialects[f][0], quotechar=dialects[f][1])
                cp = cs.csvpath()
                cp.fast_forward(f"$src/f{f}.csv[*][ yes() ]")
                cs.file_manager.add_named_file(name=f"f{f}", path=f"src/f{f}.csv")
                cs.paths_manager.add_named_paths(name="warmup", paths=["$[*][ yes() ]"])
                cs.fast_forward_paths(pathsname="warmup", filename=f"f{f}")
            except Exception as e:  # noqa: BLE001
                # the earlier session may itself have failed on this file (e.g. a field above the csv size limit)
                if not ops.in_repo(e):
                    raise
    return True


def _populate(world, sc):
    with open(os.path.join(world.root, "config", "functions.imports"), "w", encoding="utf-8") as f:
        f.write("from verifsim.extfuncs import SimProbe as extprobe\n")
    for fi, f in enumerate(sc["files"]):
        d = f.get("dialect", [",", '"'])
        world.write_csv(f"src/f{fi}.csv", f["rows"], delimiter=d[0], quotechar=d[1])


def _diff(a, b):
    if "exception" in a or "exception" in b:
        return None if a == b else ("exception", a.get("exception"), b.get("exception"))
    for k in a:
        if json.dumps(a[k], sort_keys=True, default=str) != json.dumps(b.get(k), sort_keys=True, default=str):
            return k, a[k], b.get(k)
    return None


def execute(sc):
    out = Out()
    jobs = sc["jobs"]
    dialects = [f.get("dialect", [",", '"']) for f in sc["files"]]
    main = W.World(csvpath_policy=sc["policy"]).create()
    twins = []
    try:
        _populate(main, sc)
        if sc["warm"]:
            fork_call(_warm, main.root, sc["seed"], len(sc["files"]), dialects)
            out.fault("warm_cache")
            if sc.get("tear"):
                # the earlier process died between the two writes of a cache entry (or one of the two files was lost):
                # line counts without headers, or headers without line counts
                cdir = os.path.join(main.root, "cache")
                torn = [f for f in (os.listdir(cdir) if os.path.isdir(cdir) else []) if f.endswith("." + sc["tear"])]
                for f in torn:
                    os.remove(os.path.join(cdir, f))
                if torn:
                    out.fault("torn_cache_entry", len(torn))
                    out.probe("cache with half of an entry missing")
        hist = fork_call(_history, main.root, sc["seed"], jobs, dialects)
        out.runs += len(jobs)
        seen_files = set()
        current = with_(sc)  # the files as they are when job n starts
        for n, job in enumerate(jobs):
            if job.get("rewrite"):
                current["files"][job["file"]]["rows"] = job["rewrite"]
                out.fault("file_replaced")
                out.probe("file replaced between two jobs over the same path", job["file"] in seen_files)
            tw = W.World(csvpath_policy=sc["policy"]).create()
            twins.append(tw)
            _populate(tw, current)
            twin = fork_call(_history, tw.root, sc["seed"], [job], dialects)[0]
            out.runs += 1
            tw.destroy()
            state = []
            if sc["warm"]:
                state.append("cache warmed by an earlier process")
            if n > 0:
                state.append(f"after {n} earlier job(s)")
            if job["file"] in seen_files:
                state.append("file already used in this process")
                out.probe("job over a file already used in this process")
            d = _diff(hist[n], twin)
            if job.get("read_fault"):
                # which read of the job the fault lands in depends on what is cached: the faulted job itself is not compared,
                # only the jobs after it
                d = None
                out.fault("read_error")
            text = gen.render(job["member"], f"src/f{job['file']}.csv")
            where = f"job {n} ({job['kind']}/{job['entry']}) {text!r} [{'; '.join(state) or 'first job, cold cache'}]"
            if d:
                out.v(
                    "history_dependent",
                    f"{where}: {d[0]} in the history process = {json.dumps(d[1], default=str)[:300]} but in a pristine process = {json.dumps(d[2], default=str)[:300]}",
                    field=d[0],
                    warm=sc["warm"],
                    first=n == 0,
                    kind=job["kind"],
                )
            if job["kind"] in ("direct", "via") and not job.get("policy"):
                other = dict(job, kind="via" if job["kind"] == "direct" else "direct")
                tw2 = W.World(csvpath_policy=sc["policy"]).create()
                twins.append(tw2)
                _populate(tw2, current)
                twin2 = fork_call(_history, tw2.root, sc["seed"], [other], dialects)[0]
                out.runs += 1
                tw2.destroy()
                d2 = _diff(twin, twin2)
                if d2:
                    out.v(
                        "direct_vs_managed_creation",
                        f"{text!r} ({job['entry']}), both in pristine processes: {d2[0]} with {job['kind']} creation = {json.dumps(d2[1], default=str)[:300]}, with {other['kind']} creation = {json.dumps(d2[2], default=str)[:300]}",
                        field=d2[0],
                    )
            if n == sc["seed"] % len(jobs) and not d:
                # the same job once more, in a REAL fresh interpreter under another hash seed
                import subprocess
                import sys as _sys

                tw3 = W.World(csvpath_policy=sc["policy"]).create()
                twins.append(tw3)
                _populate(tw3, current)
                spec = os.path.join(tw3.root, "spec.json")
                with open(spec, "w", encoding="utf-8") as f:
                    json.dump({"root": tw3.root, "seed": sc["seed"], "job": job, "dialects": dialects}, f)
                env = dict(os.environ)
                env["PYTHONHASHSEED"] = str(1 + sc["seed"] % 4000)
                r = subprocess.run([_sys.executable, "-m", "verifsim.fresh_job", spec], cwd=os.path.dirname(os.path.dirname(os.path.dirname(os.path.abspath(__file__)))), env=env, capture_output=True, text=True, timeout=120)
                tw3.destroy()
                out.runs += 1
                out.fault("fresh_interpreter_twin")
                if r.returncode != 0 or not r.stdout.strip():
                    raise RuntimeError(f"fresh_job failed: {r.stdout[-300:]} {r.stderr[-1500:]}")
                fresh = json.loads(r.stdout.strip().splitlines()[-1])
                d3 = _diff(json.loads(json.dumps(twin, default=str)), fresh)
                if d3:
                    out.v(
                        "process_dependent",
                        f"{where}: {d3[0]} in a forked pristine process = {json.dumps(d3[1], default=str)[:300]} but in a fresh interpreter with PYTHONHASHSEED={env['PYTHONHASHSEED']} = {json.dumps(d3[2], default=str)[:300]}",
                        field=d3[0],
                    )
            seen_files.add(job["file"])
            if out.violations:
                break
        for a in range(len(jobs)):
            for b in range(a + 1, len(jobs)):
                same = {k_: v_ for k_, v_ in jobs[a].items() if k_ != "rewrite"} == {k_: v_ for k_, v_ in jobs[b].items() if k_ != "rewrite"}
                replaced = any(jobs[x].get("rewrite") and jobs[x]["file"] == jobs[a]["file"] for x in range(a + 1, b + 1))
                if same and not replaced and a < len(hist) and b < len(hist) and _diff(hist[a], hist[b]):
                    d = _diff(hist[a], hist[b])
                    out.v("repeat_differs", f"jobs {a} and {b} are the same job {gen.render(jobs[a]['member'])!r} but {d[0]} differs: {json.dumps(d[1], default=str)[:200]} vs {json.dumps(d[2], default=str)[:200]}", field=d[0])
        classes = sorted({c for f in sc["files"] for c in f["classes"]})
        out.sig = [[j["kind"][0] + j["entry"][0] + ("p" if j.get("policy") else "") for j in jobs], [j["file"] for j in jobs], sc["warm"], classes, [d != [",", '"'] for d in dialects]]
        out.probe("jobs with different configurations in one process", len({json.dumps(j.get("policy")) for j in jobs if j["kind"] == "direct"}) > 1)
        out.probe("files with different dialects in one process", len({json.dumps(d) for d in dialects}) > 1)
        out.nontrivial = len(jobs) > 1 or sc["warm"]
        out.probe("job over a file already used in this process", False)
        out.probe("header cell starting with a quote", "leading_quote" in classes)
        out.probe("header cell with a newline", "newline" in classes)
        out.probe("two jobs through one shared CsvPaths over the same file", any(a["kind"] == b["kind"] == "via_shared" and a["file"] == b["file"] for x, a in enumerate(jobs) for b in jobs[x + 1 :]))
        out.probe("two chain jobs (source-mode preceding) over different files in one process", len({j["file"] for j in jobs if j["kind"] == "chain"}) > 1)
        out.probe("file with a cell above the csv field size limit", any(len(c) > 131072 for f in sc["files"] for r in f["rows"] for c in r))
        out.probe("job that edits headers or the line in place", any(c.startswith(("append(", "replace(")) for j in jobs for c in j["member"]["comps"]))
        out.probe("file with a single record (the header)", any(len([r for r in f["rows"] if r]) == 1 and len(f["rows"]) == 1 for f in sc["files"]))
        out.probe("two jobs that differ only by blanks inside a string literal", any(ws_sibling(a["member"]) == b["member"] for a in jobs for b in jobs if a is not b))
        out.probe("file replaced between two jobs over the same path", False)
        out.probe("cache with half of an entry missing", False)
        out.probe("jobs with different files-mode settings in one process", len({json.dumps((j["member"].get("modes") or {}).get("files-mode")) for j in jobs}) > 1)
        out.probe("job after a job that met a transient read error on the same file", any(a.get("read_fault") and a["file"] == b["file"] for x, a in enumerate(jobs) for b in jobs[x + 1 :]))
        out.probe("external function loaded from a job's own imports file after a csvpath with an unknown function", any(j.get("imports") for j in jobs) and any(j["member"]["comps"] == ["nosuchfunction()"] for j in jobs))
        out.probe("one file read with two dialects in one process", any(a["file"] == b["file"] and (a.get("read_as") or None) != (b.get("read_as") or None) for a in jobs for b in jobs))
        out.probe("exact repeat of a job", any(jobs[a] == jobs[b] for a in range(len(jobs)) for b in range(a + 1, len(jobs))))
        out.extra["header_classes"] = classes
        out.log(hist, len(out.violations))
    finally:
        main.destroy()
        for t in twins:
            t.destroy()
    return out.done()

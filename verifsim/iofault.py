"""I/O fault seam: while active, the n-th file-system call (counted over the
intercepted entry points, in program order) that names a path under one of
the watched directories fails with OSError *before* it does anything.

    with IOFault(at=3, under=["inputs/named_files"]) as st:
        ...library operation...
    st["fired"]  -> 0/1      st["calls"] -> number of watched calls seen
    st["what"]   -> e.g. "os.rename inputs/named_files/n0/a.csv/a.csv"

Intercepted: builtins.open, os.rename/replace/remove/unlink/mkdir/makedirs/
rmdir, shutil.copy/copy2/copyfile/move/rmtree.  Deterministic: the count only
depends on the calls the operation makes.  Nothing here draws random numbers.
(The fault is "the call fails", not "the call half-happens" - torn writes are a
separate seam in the property modules - with one exception: a failing
shutil.rmtree has already deleted one file of the tree.)"""
import builtins
import errno
import os
import shutil


class IOFault:
    OS_NAMES = ("rename", "replace", "remove", "unlink", "mkdir", "makedirs", "rmdir")
    SH_NAMES = ("copy", "copy2", "copyfile", "move", "rmtree")

    def __init__(self, at, under, err=errno.EIO):
        self.at = at
        self.under = [os.path.abspath(u) + os.sep for u in under]
        self.err = err
        self.state = {"fired": 0, "calls": 0, "what": None}

    def _watched(self, *paths):
        for p in paths:
            if isinstance(p, (str, bytes, os.PathLike)):
                try:
                    a = os.path.abspath(os.fspath(p))
                except Exception:  # noqa: BLE001
                    continue
                if isinstance(a, bytes):
                    continue
                if any((a + os.sep).startswith(u) for u in self.under):
                    return a
        return None

    def _gate(self, name, *paths):
        st = self.state
        if st["fired"]:
            return
        a = self._watched(*paths)
        if a is None:
            return
        st["calls"] += 1
        if st["calls"] == self.at:
            st["fired"] = 1
            st["what"] = f"{name} {os.path.relpath(a)}"
            if name == "shutil.rmtree" and os.path.isdir(a):
                # a tree delete that dies part-way: one file (the first in sorted walk order) is already gone
                for r, ds, fs in sorted(os.walk(a)):
                    if fs:
                        self.saved["os.remove"](os.path.join(r, sorted(fs)[0]))
                        break
            raise OSError(self.err, f"simulated I/O error at call {self.at}: {name}", a)

    def __enter__(self):
        self.saved = {"open": builtins.open}
        real_open = builtins.open
        gate = self._gate

        def opener(file, mode="r", *a, **kw):
            gate(f"open({mode})", file)
            return real_open(file, mode, *a, **kw)

        builtins.open = opener
        for n in self.OS_NAMES:
            real = getattr(os, n)
            self.saved["os." + n] = real

            def w(*a, _real=real, _n=n, **kw):
                gate("os." + _n, *a[:2])
                return _real(*a, **kw)

            setattr(os, n, w)
        for n in self.SH_NAMES:
            real = getattr(shutil, n)
            self.saved["shutil." + n] = real

            def w2(*a, _real=real, _n=n, **kw):
                gate("shutil." + _n, *a[:2])
                return _real(*a, **kw)

            setattr(shutil, n, w2)
        return self.state

    def __exit__(self, *exc):
        builtins.open = self.saved["open"]
        for n in self.OS_NAMES:
            setattr(os, n, self.saved["os." + n])
        for n in self.SH_NAMES:
            setattr(shutil, n, self.saved["shutil." + n])
        return False

"""Batch runner: seeded search over scenarios across worker processes, violation
triage against the known-findings file, shrinking, replay files, fresh-interpreter
confirmation, determinism sampling and evidence."""
import concurrent.futures as cf
import faulthandler
import hashlib
import importlib
import json
import multiprocessing as mp
import os
import random
import signal
import subprocess
import sys
import time
import traceback

VERIF = os.path.dirname(os.path.dirname(os.path.abspath(__file__)))
PY = sys.executable
LEVEL = "exploration"

PROPS = ["C04", "C05", "C07", "C08", "C09", "C10", "C11", "C12", "C18", "C19", "C20"]


class SimTimeout(BaseException):
    """Wall-clock overrun of one scenario.  Not an Exception: csvpath's own broad
    `except Exception` handlers must not be able to swallow it."""


def load_prop(pid):
    return importlib.import_module(f"verifsim.props.{pid.lower()}")


def seed_for(base_seed, i):
    return base_seed * (1 << 20) + i


def rng_for(pid, seed):
    return random.Random(f"{pid}:{seed}")


# --------------------------------------------------------------------------
# executing one scenario
# --------------------------------------------------------------------------


def _alarm(signum, frame):
    raise SimTimeout()


def execute_guarded(prop, sc, limit_s=90):
    """Runs prop.execute(sc).  Exceptions escaping it are classified:
    raised inside the csvpath package -> violation `unexpected_exception`;
    a wall-clock overrun -> violation `hang`; anything else -> harness error."""
    from . import ops, seams, extfuncs

    old = signal.signal(signal.SIGALRM, _alarm)
    # repeating: if the first delivery lands inside a handler that discards it, the next one gets through
    signal.setitimer(signal.ITIMER_REAL, limit_s, 3)
    cwd = os.getcwd()
    seams.SimClock.total_advance = seams.SimClock.total_advance * 0
    seams.SimClock.cumulative = seams.SimClock.cumulative * 0
    try:
        out = prop.execute(sc)
    except SimTimeout:
        signal.setitimer(signal.ITIMER_REAL, 0)
        out = {"violations": [{"clause": "hang", "detail": f"scenario did not finish within {limit_s}s wall", "facts": {}}]}
    except Exception as e:  # noqa: BLE001
        if ops.in_repo(e):
            tb = traceback.extract_tb(e.__traceback__)
            inner = [fr for fr in tb if os.path.abspath(fr.filename).startswith(ops.CSVPATH_HOME)] or tb
            where = f"{os.path.basename(inner[-1].filename)}:{inner[-1].name}"
            out = {
                "violations": [
                    {
                        "clause": "unexpected_exception",
                        "detail": f"{ops.exc_sig(e)} at {where}",
                        "facts": {"exc": type(e).__name__, "where": where},
                    }
                ]
            }
        else:
            out = {"harness_error": "".join(traceback.format_exception(e))[-3000:], "violations": []}
    finally:
        signal.setitimer(signal.ITIMER_REAL, 0)
        signal.signal(signal.SIGALRM, old)
        seams.deactivate()
        extfuncs.disarm()
        try:
            os.chdir(cwd)
        except OSError:
            pass
    out.setdefault("violations", [])
    return out


EARLY_STOP = 48  # unknown violations after which a batch stops searching
HARD_EXIT = False  # set when a worker pool was abandoned: main() then leaves through os._exit


def _worker_init(base):
    from .forkutil import die_with_parent

    die_with_parent()
    os.environ["VERIFSIM_BASE"] = base
    faulthandler.enable()
    faulthandler.register(signal.SIGUSR1, file=sys.__stderr__, all_threads=False)
    from . import ops

    sys.stdout = ops.SINK
    ops.install_unraisable_hook()


def _run_chunk_inner(pid, base_seed, idxs, tier):
    prop = load_prop(pid)
    faulthandler.dump_traceback_later(1500, exit=True)
    res = []
    done_scs = []
    with_prefix = 0
    try:
        for i in idxs:
            seed = seed_for(base_seed, i)
            rng = rng_for(pid, seed)
            try:
                sc = prop.generate(rng, i, tier)
            except Exception as e:  # noqa: BLE001
                res.append({"i": i, "seed": seed, "harness_error": "generate: " + "".join(traceback.format_exception(e))[-2000:], "violations": []})
                continue
            out = execute_guarded(prop, sc)
            out["i"] = i
            out["seed"] = seed
            if out["violations"] or out.get("harness_error") or (i % 97 == 0):
                out["scenario"] = sc
            if out["violations"] and with_prefix < 2 and done_scs:
                # what ran before it in this process: needed if the violation depends on process history
                out["prefix_scenarios"] = list(done_scs)
                with_prefix += 1
            done_scs.append(sc)
            res.append(out)
    finally:
        faulthandler.cancel_dump_traceback_later()
    return res


def _run_chunk(pid, base_seed, idxs, tier):
    """Pool task.  The worker itself never touches csvpath beyond importing it:
    each chunk runs in a child forked from the pristine worker."""
    from .forkutil import fork_call

    load_prop(pid)  # import (and with it csvpath) once, in the zygote
    return fork_call(_run_chunk_inner, pid, base_seed, idxs, tier)


# --------------------------------------------------------------------------
# known findings
# --------------------------------------------------------------------------


def load_findings(pid):
    p = os.path.join(VERIF, "known_findings.json")
    if not os.path.exists(p):
        return []
    with open(p, encoding="utf-8") as f:
        data = json.load(f)
    return [x for x in data.get("findings", []) if x.get("property") == pid and x.get("status") == "known"]


def finding_matches(finding, v):
    if finding.get("clause") not in ("*", v.get("clause")):
        return False
    facts = v.get("facts", {})
    for k, want in finding.get("facts", {}).items():
        if facts.get(k) != want:
            return False
    return True


def triage(findings, violations):
    """-> (unknown violations, {finding id: count})"""
    unknown, known = [], {}
    for v in violations:
        hit = None
        for f in findings:
            if finding_matches(f, v):
                hit = f
                break
        if hit is None:
            unknown.append(v)
        else:
            known[hit["id"]] = known.get(hit["id"], 0) + 1
    return unknown, known


# --------------------------------------------------------------------------
# shrinking
# --------------------------------------------------------------------------


def has_clause(out, clause, findings=()):
    for v in out.get("violations", []):
        if v["clause"] == clause and not any(finding_matches(f, v) for f in findings):
            return v
    return None


def shrink(prop, sc, clause, findings=(), budget_s=60, log=None):
    """Greedy delta debugging: take the first reduction that still shows the same
    violation class (and is not a listed known finding), restart, until no
    reduction helps or the budget is spent."""
    t0 = time.time()
    steps = 0
    tried = 0
    progress = True
    while progress and time.time() - t0 < budget_s:
        progress = False
        for cand in prop.reductions(sc):
            if time.time() - t0 >= budget_s:
                break
            tried += 1
            out = execute_guarded(prop, cand)
            if out.get("harness_error"):
                continue
            if has_clause(out, clause, findings):
                sc = cand
                steps += 1
                progress = True
                break
    if log:
        log(f"shrink: {steps} reductions accepted, {tried} tried, {time.time() - t0:.1f}s")
    return sc


# --------------------------------------------------------------------------
# replay
# --------------------------------------------------------------------------


def write_replay(pid, seed, sc, v, tag="", prefix=None):
    d = os.path.join(VERIF, "replays")
    os.makedirs(d, exist_ok=True)
    name = f"{pid}-{seed}-{v['clause']}{tag}.json"
    p = os.path.join(d, name)
    doc = {"property": pid, "seed": seed, "clause": v["clause"], "detail": v.get("detail"), "facts": v.get("facts", {}), "scenario": sc}
    if prefix:
        doc["prefix_scenarios"] = prefix
        doc["note"] = "the violation depends on process history: prefix_scenarios are executed first, in the same process, then scenario"
    with open(p, "w", encoding="utf-8") as f:
        json.dump(doc, f, indent=1, sort_keys=True)
    return p


def confirm_with_history(pid, seed, sc, v, prefix, budget_s=120, log=None):
    """The violation did not reproduce from a pristine process.  Try with the
    scenarios that ran before it in its worker process, then minimise that
    prefix (each attempt in a fresh interpreter)."""
    from .props.common import drop_each

    t0 = time.time()
    path = write_replay(pid, seed, sc, v, tag="-history", prefix=prefix)
    ok, tail = confirm_in_fresh_interpreter(path)
    if not ok:
        return None, tail
    cur = prefix
    tried = 0
    progress = True
    while progress and len(cur) > 1 and time.time() - t0 < budget_s:
        progress = False
        for cand in drop_each(cur, 1):
            if time.time() - t0 >= budget_s:
                break
            tried += 1
            tmp = write_replay(pid, seed, sc, v, tag="-history-try", prefix=cand)
            ok2, _ = confirm_in_fresh_interpreter(tmp)
            if ok2:
                cur = cand
                progress = True
                break
    try:
        os.remove(os.path.join(VERIF, "replays", f"{pid}-{seed}-{v['clause']}-history-try.json"))
    except OSError:
        pass
    path = write_replay(pid, seed, sc, v, tag="-history", prefix=cur)
    if log:
        log(f"history replay: prefix minimised from {len(prefix)} to {len(cur)} earlier scenario(s), {tried} fresh-interpreter attempts, {time.time() - t0:.1f}s")
    return path, ""


def replay_file(path, quiet=False):
    with open(path, encoding="utf-8") as f:
        rp = json.load(f)
    pid = rp["property"]
    prop = load_prop(pid)
    for psc in rp.get("prefix_scenarios") or []:
        # process history: scenarios that ran earlier in the same process
        execute_guarded(prop, psc)
    out = execute_guarded(prop, rp["scenario"])
    if out.get("harness_error"):
        print("HARNESS-ERROR during replay:\n" + out["harness_error"], file=sys.__stdout__)
        return 2
    findings = load_findings(pid)
    v = None
    for cand in out["violations"]:
        if cand["clause"] == rp["clause"]:
            v = cand
            break
    if v is None:
        if not quiet:
            others = sorted({x["clause"] for x in out["violations"]})
            print(f"replay {path}: clause {rp['clause']} NOT reproduced (other clauses seen: {others})", file=sys.__stdout__)
        return 0
    if any(finding_matches(f, v) for f in findings):
        print(f"KNOWN-FINDING: property={pid} {v['clause']} {v.get('detail', '')}", file=sys.__stdout__)
        return 0
    print(f"replayed: {v['clause']}: {v.get('detail', '')}", file=sys.__stdout__)
    print(f"VIOLATION property={pid} replay={path}", file=sys.__stdout__)
    return 1


def confirm_in_fresh_interpreter(path):
    """Re-executes the replay file in a fresh interpreter with another hash seed."""
    env = dict(os.environ)
    env["PYTHONHASHSEED"] = "7"
    env.pop("VERIFSIM_BASE", None)
    try:
        r = subprocess.run([PY, "-m", "verifsim", "replay", path], cwd=VERIF, env=env, capture_output=True, text=True, timeout=600)
    except subprocess.TimeoutExpired:
        return False, "timeout"
    return r.returncode == 1 and "VIOLATION property=" in r.stdout, (r.stdout + r.stderr)[-1500:]


# --------------------------------------------------------------------------
# determinism sample
# --------------------------------------------------------------------------


def digests_fresh(pid, base_seed, idxs, tier, hashseed="0"):
    env = dict(os.environ)
    env["PYTHONHASHSEED"] = hashseed
    env.pop("VERIFSIM_BASE", None)
    r = subprocess.run(
        [PY, "-m", "verifsim", "digests", pid, "--seed", str(base_seed), "--tier", tier, "--idxs", ",".join(map(str, idxs))],
        cwd=VERIF,
        env=env,
        capture_output=True,
        text=True,
        timeout=1500,
    )
    if r.returncode != 0:
        raise RuntimeError(f"digest subprocess failed: {r.stdout[-1000:]} {r.stderr[-2000:]}")
    return json.loads(r.stdout.strip().splitlines()[-1])


def digests_here(pid, base_seed, idxs, tier):
    prop = load_prop(pid)
    out = {}
    for i in idxs:
        seed = seed_for(base_seed, i)
        sc = prop.generate(rng_for(pid, seed), i, tier)
        o = execute_guarded(prop, sc)
        out[str(i)] = o.get("digest") if not o.get("harness_error") else "HARNESS-ERROR"
    return out


# --------------------------------------------------------------------------
# the check
# --------------------------------------------------------------------------


def say(*a):
    # (scenario texts may hold lone surrogates - undecodable file names: never let reporting fail on them)
    print(*[str(x).encode("utf-8", "backslashreplace").decode("utf-8") for x in a], file=sys.__stdout__, flush=True)


def run_check(pid, tier="quick", base_seed=0, n=None, workers=None, wall_cap=None, write_evidence=True):
    from . import world

    prop = load_prop(pid)
    t_start = time.time()
    n = n or prop.TIERS[tier]["n"]
    wall_cap = wall_cap or prop.TIERS[tier].get("wall_cap", 3000)
    workers = workers or min(16, os.cpu_count() or 4)
    findings = load_findings(pid)
    say(f"[{pid}] tier={tier} VERIF_SEED={base_seed} scenarios={n} workers={workers}")

    base = world.base_dir()
    exit_code = 0
    agg = {
        "evaluations": 0,
        "runs": 0,
        "sigs": set(),
        "nontrivial": 0,
        "faults": {},
        "probes": {},
        "states": set(),
        "sim_s": 0.0,
        "discards": 0,
        "samples": [],
        "known": {},
        "extra": {},
    }
    violations = []  # (seed, i, scenario, violation)
    prefixes = {}  # seed -> scenarios that ran before it in its process
    harness_errors = []
    digests = {}

    known_lines = []
    chunk = max(1, min(prop.TIERS[tier].get("chunk", 25), n // (workers * 4) or 1))
    idx_chunks = [list(range(s, min(n, s + chunk))) for s in range(0, n, chunk)]
    ctx = mp.get_context("fork")
    timed_out = False
    early_stop = False
    # (no `with`: after an early stop or a wall-cap overrun the pool is abandoned, not joined - see below)
    ex = cf.ProcessPoolExecutor(max_workers=workers, mp_context=ctx, initializer=_worker_init, initargs=(base,))
    if True:
        futs = {ex.submit(_run_chunk, pid, base_seed, c, tier): c for c in idx_chunks}
        try:
            for fut in cf.as_completed(futs, timeout=wall_cap):
                try:
                    res = fut.result()
                except Exception as e:  # noqa: BLE001
                    harness_errors.append((f"chunk {futs[fut][:1]}", repr(e)))
                    continue
                for o in res:
                    agg["evaluations"] += 1
                    if o.get("harness_error"):
                        harness_errors.append((o["seed"], o["harness_error"]))
                        continue
                    if o.get("discard"):
                        agg["discards"] += 1
                        continue
                    agg["runs"] += o.get("runs", 1)
                    agg["sim_s"] += o.get("sim_s", 0.0)
                    digests[o["i"]] = o.get("digest")
                    if o.get("nontrivial", True):
                        agg["nontrivial"] += 1
                        agg["sigs"].add(o.get("sig", str(o["seed"])))
                    for k, c in o.get("faults", {}).items():
                        agg["faults"][k] = agg["faults"].get(k, 0) + c
                    for k, c in o.get("probes", {}).items():
                        agg["probes"][k] = agg["probes"].get(k, 0) + c
                    for s in o.get("states", []):
                        agg["states"].add(s)
                    for k, c in o.get("extra", {}).items():
                        if isinstance(c, (int, float)):
                            agg["extra"][k] = agg["extra"].get(k, 0) + c
                        elif isinstance(c, list):
                            agg["extra"].setdefault(k, set()).update(map(str, c))
                    unk, kn = triage(findings, o["violations"])
                    if "scenario" in o and not unk and len(agg["samples"]) < 4:
                        agg["samples"].append({"seed": o["seed"], "scenario": o["scenario"], "signature": o.get("sig")})
                    for k, c in kn.items():
                        agg["known"][k] = agg["known"].get(k, 0) + c
                    for v in unk:
                        violations.append((o["seed"], o["i"], o.get("scenario"), v))
                    if unk and o.get("prefix_scenarios"):
                        prefixes[o["seed"]] = o["prefix_scenarios"]
                if len(violations) >= EARLY_STOP:
                    # the verdict is already "violated": do not spend the rest of the budget (a broken tree can
                    # also be a very slow one); what was covered until here is what the evidence reports
                    early_stop = True
                    break
        except cf.TimeoutError:
            timed_out = True
        if timed_out or early_stop:
            # Abandon the pool: joining an executor whose workers were killed can block for ever in its management
            # thread (seen once in ~100 batches), so the process leaves through os._exit at the very end (HARD_EXIT).
            global HARD_EXIT
            HARD_EXIT = True
            procs = list((getattr(ex, "_processes", None) or {}).values())
            ex.shutdown(wait=False, cancel_futures=True)
            for p in procs:
                try:
                    p.kill()  # the chunk children die with their worker (PR_SET_PDEATHSIG)
                except Exception:  # noqa: BLE001
                    pass
        else:
            ex.shutdown(wait=True)
    t_search = time.time() - t_start

    # ---- canaries for known findings: they must still reproduce ----
    for f in findings:
        if "canary" in f:
            out = execute_guarded(prop, f["canary"])
            if out.get("harness_error"):
                harness_errors.append(("canary " + f["id"], out["harness_error"]))
                continue
            if any(finding_matches(f, v) for v in out["violations"]):
                known_lines.append(f"KNOWN-FINDING: property={pid} {f['what']}")
            else:
                say(f"[{pid}] note: known finding {f['id']} no longer reproduces on its canary (defect fixed?)")
            unk, _ = triage(findings, out["violations"])
            for v in unk:
                violations.append((-1, -1, f["canary"], v))


    for line in known_lines:
        say(line)

    # ---- violations: shrink, write replay, confirm ----
    reported = []
    if violations:
        by_clause = {}
        for seed, i, sc, v in violations:
            by_clause.setdefault(v["clause"], []).append((seed, i, sc, v))
        for clause, items in sorted(by_clause.items()):
            items.sort(key=lambda x: (len(json.dumps(x[2])) if x[2] is not None else 1 << 30))
            confirmed = False
            for seed, i, sc, v in items[:3]:
                if sc is None:
                    continue
                say(f"[{pid}] violation clause={clause} seed={seed}: {v.get('detail', '')[:300]}")
                small = shrink(prop, sc, clause, findings, budget_s=prop.TIERS[tier].get("shrink_s", 45), log=lambda m: say(f"[{pid}] {m}"))
                out = execute_guarded(prop, small)
                vv = has_clause(out, clause, findings) or v
                path = write_replay(pid, seed, small, vv)
                ok, tail = confirm_in_fresh_interpreter(path)
                if ok:
                    say(f"[{pid}] {clause}: {vv.get('detail', '')[:400]}")
                    say(f"VIOLATION property={pid} replay={path}")
                    reported.append({"clause": clause, "seed": seed, "replay": path, "detail": vv.get("detail"), "count": len(items)})
                    confirmed = True
                    exit_code = 1
                    break
                say(f"[{pid}] replay {path} did not reproduce in a fresh interpreter; trying the unshrunk history")
                path2 = write_replay(pid, seed, sc, v, tag="-full")
                ok2, tail2 = confirm_in_fresh_interpreter(path2)
                if ok2:
                    say(f"VIOLATION property={pid} replay={path2}")
                    reported.append({"clause": clause, "seed": seed, "replay": path2, "detail": v.get("detail"), "count": len(items)})
                    confirmed = True
                    exit_code = 1
                    break
                if seed in prefixes:
                    hp, htail = confirm_with_history(pid, seed, sc, v, prefixes[seed], log=lambda m: say(f"[{pid}] {m}"))
                    if hp:
                        say(f"[{pid}] {clause}: {v.get('detail', '')[:400]} [only after earlier scenarios in the same process]")
                        say(f"VIOLATION property={pid} replay={hp}")
                        reported.append({"clause": clause, "seed": seed, "replay": hp, "detail": v.get("detail"), "count": len(items), "needs_process_history": True})
                        confirmed = True
                        exit_code = 1
                        break
                harness_errors.append((seed, f"violation {clause} seen in worker but not reproducible in a fresh interpreter:\n{tail2}"))
            if not confirmed:
                for seed, i, sc, v in [it for it in items if it[0] in prefixes and it[2] is not None][:2]:
                    hp, htail = confirm_with_history(pid, seed, sc, v, prefixes[seed], log=lambda m: say(f"[{pid}] {m}"))
                    if hp:
                        say(f"[{pid}] {clause}: {v.get('detail', '')[:400]} [only after earlier scenarios in the same process]")
                        say(f"VIOLATION property={pid} replay={hp}")
                        reported.append({"clause": clause, "seed": seed, "replay": hp, "detail": v.get("detail"), "count": len(items), "needs_process_history": True})
                        harness_errors[:] = [h for h in harness_errors if not (isinstance(h[1], str) and h[1].startswith(f"violation {clause} seen in worker"))]
                        confirmed = True
                        exit_code = 1
                        break
            if not confirmed and exit_code == 0:
                exit_code = 2

    # ---- determinism sample: ~2% of the seeds again in a fresh interpreter ----
    det = {"pairs": 0, "mismatches": []}
    if not timed_out and not early_stop and digests:
        k = max(4, min(40, len(digests) // 50))
        pick = sorted(digests)[:: max(1, len(digests) // k)][:k]
        try:
            fresh = digests_fresh(pid, base_seed, pick, tier)
            for i in pick:
                det["pairs"] += 1
                if fresh.get(str(i)) != digests[i]:
                    det["mismatches"].append(i)
        except Exception as e:  # noqa: BLE001
            harness_errors.append(("determinism", repr(e)))
        if det["mismatches"]:
            if getattr(prop, "NONDETERMINISM_IS_VIOLATION", False):
                say(f"[{pid}] repeated runs differ for scenario indexes {det['mismatches']}")
            harness_errors.append(("determinism", f"NONDETERMINISM: digests differ between pool worker and fresh interpreter for idx {det['mismatches']}"))

    if timed_out:
        # the search is time-boxed: running out of wall clock ends it; it only counts as a failure of the harness when
        # hardly anything was explored (something is stuck, or the machine is far too loaded to say anything)
        if agg["evaluations"] * 4 >= n:
            say(f"[{pid}] wall cap {wall_cap}s reached: explored {agg['evaluations']} of {n} scenarios")
        else:
            harness_errors.append(("wall", f"batch exceeded wall cap {wall_cap}s after only {agg['evaluations']} of {n} scenarios"))
    if agg["evaluations"] and agg["discards"] * 2 > agg["evaluations"]:
        harness_errors.append(("discards", f"{agg['discards']} of {agg['evaluations']} scenarios discarded: inconclusive"))
    for probe, c in sorted(agg["probes"].items()):
        if c == 0:
            say(f"[{pid}] note: probe '{probe}' never hit in this batch")

    wall = time.time() - t_start
    if harness_errors:
        for who, msg in harness_errors[:5]:
            say(f"[{pid}] HARNESS-ERROR ({who}): {msg}")
        if exit_code == 0:
            exit_code = 2

    if write_evidence:
        ev = {
            "property_id": pid,
            "tier": tier,
            "seed": base_seed,
            "level": LEVEL,
            "coverage": {
                "evaluations": agg["evaluations"],
                "distinct_nontrivial": len(agg["sigs"]),
                "rule": prop.RULE,
                "samples": agg["samples"][:4] or [{"note": "no sample retained"}],
                "library_runs": agg["runs"],
                "nontrivial_evaluations": agg["nontrivial"],
                "distinct_end_states": len(agg["states"]),
                "faults_fired": dict(sorted(agg["faults"].items())),
                "probes_hit": dict(sorted(agg["probes"].items())),
                "discarded": agg["discards"],
                "simulated_seconds_covered": round(agg["sim_s"], 3),
                "scenarios_per_hour": int(agg["evaluations"] / max(t_search, 1e-6) * 3600),
                "library_runs_per_hour": int(agg["runs"] / max(t_search, 1e-6) * 3600),
                "seeds": f"VERIF_SEED*2^20 + [0..{n - 1}]",
                "determinism_pairs_rechecked_in_fresh_interpreter": det["pairs"],
                "determinism_mismatches": len(det["mismatches"]),
                "known_findings_seen": agg["known"],
                "violations_reported": reported,
                "harness_errors": len(harness_errors),
                "real_components": prop.REAL,
                "stubbed_components": prop.STUB,
                "extra": {k: ({"distinct": len(v), "sample": sorted(v)[:12]} if isinstance(v, set) else v) for k, v in sorted(agg["extra"].items())},
                "exhaustive": False,
            },
            "assumptions": prop.ASSUMPTIONS,
            "wall_s": round(wall, 2),
            "violations": len(reported),
        }
        os.makedirs(os.path.join(VERIF, "evidence"), exist_ok=True)
        with open(os.path.join(VERIF, "evidence", f"{pid}.json"), "w", encoding="utf-8") as f:
            json.dump(ev, f, indent=1, sort_keys=True, default=str)
    say(
        f"[{pid}] done: {agg['evaluations']} scenarios / {agg['runs']} library runs, {len(agg['sigs'])} distinct non-trivial signatures, "
        f"faults={dict(sorted(agg['faults'].items()))}, known={agg['known']}, violations={len(reported)}, exit={exit_code}, {wall:.1f}s"
    )
    world.remove_base()
    return exit_code

"""fork_call(fn, *args): run fn in a forked child of the calling process and
return its JSON-able result.  Used to keep pool workers pristine: a worker
imports csvpath once and never uses it; every chunk of scenarios (and every
process of a C19 history) runs in a child forked from that zygote, so the
process-global state a scenario sees is exactly the scenarios executed before it
in its chunk - which is what a history replay file records."""
import json
import os
import signal
import traceback


def die_with_parent():
    """PR_SET_PDEATHSIG(SIGKILL): no orphaned simulation keeps burning CPU after its parent is gone."""
    try:
        import ctypes

        ctypes.CDLL(None, use_errno=True).prctl(1, int(signal.SIGKILL), 0, 0, 0)
    except Exception:  # noqa: BLE001
        pass


def fork_call(fn, *args):
    r, w = os.pipe()
    ppid = os.getpid()
    pid = os.fork()
    if pid == 0:
        code = 0
        try:
            os.close(r)
            die_with_parent()
            if os.getppid() != ppid:
                os._exit(4)
            try:
                res = {"ok": fn(*args)}
            except BaseException as e:  # noqa: BLE001
                res = {"error": "".join(traceback.format_exception(e))[-3000:]}
            data = json.dumps(res, default=str).encode()
            with os.fdopen(w, "wb") as f:
                f.write(data)
        except BaseException:  # noqa: BLE001
            code = 3
        finally:
            os._exit(code)
    os.close(w)
    try:
        chunks = []
        with os.fdopen(r, "rb") as f:
            while True:
                b = f.read(1 << 16)
                if not b:
                    break
                chunks.append(b)
        _, status = os.waitpid(pid, 0)
    except BaseException:
        try:
            os.kill(pid, signal.SIGKILL)
            os.waitpid(pid, 0)
        except Exception:  # noqa: BLE001
            pass
        raise
    raw = b"".join(chunks).decode()
    if not raw:
        raise RuntimeError(f"forked child died without a result (wait status {status})")
    res = json.loads(raw)
    if "error" in res:
        raise RuntimeError("forked child failed:\n" + res["error"])
    return res["ok"]

#!/bin/sh
# tools/mutant_run.sh <patch> <property id> [extra check args]
# Applies a patch (paths relative to the repository root) to a scratch copy of
# /repo/csvpath outside /repo and /verif, runs the check against it through
# $VERIF_REPO, prints the exit code and deletes the copy.
set -u
patch="$(readlink -f "$1")"; prop="$2"; shift 2
d="$(mktemp -d /tmp/verif-mut-XXXXXX)"
trap 'rm -rf "$d"' EXIT INT TERM
git -C /repo archive HEAD csvpath | tar -x -C "$d"  # (HEAD, not the working tree: seed_recheck may have a change applied there)
find "$d" -name __pycache__ -type d -prune -exec rm -rf {} +
if ! (cd "$d" && patch -s -p1 < "$patch"); then echo "PATCH-FAILED $patch"; exit 3; fi
cd /verif && VERIF_REPO="$d" ./check "$prop" --no-evidence "$@"
rc=$?
echo "MUTANT $(basename "$patch") property=$prop exit=$rc"
exit $rc

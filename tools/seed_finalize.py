#!/usr/bin/env python3
"""tools/seed_finalize.py [PID-i ...]: for each seeded change, (re)run the property's quick check against it
(tools/seed_check.sh applies the patch to /repo, runs ./check, reverts) and write seeded/<PID>-<i>/meta.json."""
import glob
import json
import os
import re
import subprocess
import sys

VERIF = os.path.dirname(os.path.dirname(os.path.abspath(__file__)))

# what happened the first time each change was run against the checks as they were when the change arrived
FIRST = {
    "C04-1": ("missed", "no family had an error and a skip() on the same line; the secondary monitor only saw handlers that ran. Added family error_skip_same_line and a raised-errors monitor (wraps Expression.matches/handle_error)."),
    "C04-2": ("missed", "the manager was only asked after the run. Added mid-run polling of results_manager.is_valid from the online probe."),
    "C05-1": ("missed", "no template had a stop()/skip() after the erroring component. Added stop/skip tails."),
    "C05-2": ("missed", "all argument-mismatch provokers were assignments (evaluated through to_value). Added kind arg_match (between() in match position), match/no-match override weight and the clean-line clause."),
    "C07-1": ("missed", "generated csvpaths had no return-mode/logic-mode and few onmatch+skip combinations. Added modes and the function zoo."),
    "C07-2": ("caught", ""),
    "C08-1": ("caught", ""),
    "C08-2": ("caught", ""),
    "C09-1": ("missed", "members with run-mode: no-run were not generated. Added."),
    "C09-2": ("missed by C09, caught by C18", "C18's recovery run caught it at once; C09 had no run after an unfinished run. Added abandoned generator runs before a run."),
    "C10-1": ("caught", ""),
    "C10-2": ("missed", "needs 13 runs of one group inside one second; histories had at most a few. Added the burst stratum (1 in 25 scenarios)."),
    "C11-1": ("caught", ""),
    "C11-2": ("caught", ""),
    "C12-1": ("caught", ""),
    "C12-2": ("caught", ""),
    "C18-1": ("caught", ""),
    "C18-2": ("caught", ""),
    "C19-1": ("missed", "median() was never generated. Added the function zoo (141 verified components) to the twin-based checks."),
    "C19-2": ("missed", "no header cell had a removable character next to a space at the cell edge. Added such cells to the header pool."),
    "C20-1": ("missed", "the replay workload replayed once. Made it a history: runs, replay, more runs, the same reference replayed again."),
    "C20-2": ("missed", "G was only run with collecting methods. All seven run forms now."),
}


def main():
    want = sys.argv[1:] or sorted(os.path.basename(d) for d in glob.glob(os.path.join(VERIF, "seeded", "C*-*")))
    for sid in want:
        pid, i = sid.split("-")
        d = os.path.join(VERIF, "seeded", sid)
        r = subprocess.run([os.path.join(VERIF, "tools", "seed_check.sh"), pid, i], capture_output=True, text=True, cwd=VERIF)
        out = r.stdout
        m = re.search(r"SEED \S+ check exit=(\d+) demo_without=(\d+) demo_with=(\d+)", out)
        clauses = sorted({re.sub(r"^[^-]+-\d+-", "", os.path.basename(x))[:-5] for x in re.findall(r"replay=(\S+)", out)})
        notes = ""
        try:
            with open(os.path.join(d, "notes.md"), encoding="utf-8") as f:
                notes = f.read()
        except OSError:
            pass
        needs = ""
        for line in notes.splitlines():
            if re.search(r"needed to manifest|Trigger|trigger|What is needed", line):
                needs = line.strip("- ").strip()
                break
        tests = ""
        try:
            with open(os.path.join(d, "tests.txt"), encoding="utf-8") as f:
                tests = f.read().strip()
        except OSError:
            tests = "not run"
        meta = {
            "id": sid,
            "property_broken": pid,
            "author": "independent sub-agent given only the property text and its own scratch worktree (/tmp/seed-%s)" % pid,
            "needs_to_manifest": needs,
            "files": {"patch": "patch.diff", "demonstration": "demo.py", "author_notes": "notes.md"},
            "confirmed_by_me": {
                "demo_exit_without_change": int(m.group(2)) if m else None,
                "demo_exit_with_change": int(m.group(3)) if m else None,
                "pinned_suite_with_change": tests,
                "how": "tools/seed_check.sh (demo in the scratch worktree with and without the change) and tools/seed_tests.sh (whole pinned suite with the change, passed set compared with BASELINE.json stable_pass)",
            },
            "first_encounter": FIRST.get(sid, ("", ""))[0],
            "strengthening": FIRST.get(sid, ("", ""))[1],
            "current_check": {
                "command": f"git -C /repo apply seeded/{sid}/patch.diff && ./check {pid} --tier quick ; git -C /repo checkout -- .",
                "exit": int(m.group(1)) if m else None,
                "violation_clauses": clauses,
            },
        }
        with open(os.path.join(d, "meta.json"), "w", encoding="utf-8") as f:
            json.dump(meta, f, indent=1)
        print(sid, meta["current_check"]["exit"], clauses, "| tests:", tests.splitlines()[-1] if tests else "")


if __name__ == "__main__":
    main()

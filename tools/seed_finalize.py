#!/usr/bin/env python3
"""tools/seed_finalize.py [PID-i ...]: (re)writes seeded/<PID>-<i>/meta.json from the directory's contents and the
record of the first encounter below; `current_check` is kept from the previous meta.json (tools/seed_recheck.py measures it)."""
import glob
import json
import os
import re
import subprocess
import sys

VERIF = os.path.dirname(os.path.dirname(os.path.abspath(__file__)))

# what happened the first time each change was run against the checks as they were when the change arrived
FIRST = {
    "C04-1": ("missed", "no family had an error and a skip() on the same line; the secondary monitor only saw handlers that ran. Added family error_skip_same_line and a raised-errors monitor (wraps Expression.matches/handle_error)."),
    "C04-2": ("missed", "the manager was only asked after the run. Added mid-run polling of results_manager.is_valid from the online probe."),
    "C05-1": ("missed", "no template had a stop()/skip() after the erroring component. Added stop/skip tails."),
    "C05-2": ("missed", "all argument-mismatch provokers were assignments (evaluated through to_value). Added kind arg_match (between() in match position), match/no-match override weight and the clean-line clause."),
    "C07-1": ("missed", "generated csvpaths had no return-mode/logic-mode and few onmatch+skip combinations. Added modes and the function zoo."),
    "C07-2": ("caught", ""),
    "C08-1": ("caught", ""),
    "C08-2": ("caught", ""),
    "C09-1": ("missed", "members with run-mode: no-run were not generated. Added."),
    "C09-2": ("missed by C09, caught by C18", "C18's recovery run caught it at once; C09 had no run after an unfinished run. Added abandoned generator runs before a run."),
    "C10-1": ("caught", ""),
    "C10-2": ("missed", "needs 13 runs of one group inside one second; histories had at most a few. Added the burst stratum (1 in 25 scenarios)."),
    "C11-1": ("caught", ""),
    "C11-2": ("caught", ""),
    "C12-1": ("caught", ""),
    "C12-2": ("caught", ""),
    "C18-1": ("caught", ""),
    "C18-2": ("caught", ""),
    "C19-1": ("missed", "median() was never generated. Added the function zoo (141 verified components) to the twin-based checks."),
    "C19-2": ("missed", "no header cell had a removable character next to a space at the cell edge. Added such cells to the header pool."),
    "C20-1": ("missed", "the replay workload replayed once. Made it a history: runs, replay, more runs, the same reference replayed again."),
    "C20-2": ("missed", "G was only run with collecting methods. All seven run forms now."),
    # ---- round 2 (the first round's sites and mechanisms were excluded in the prompt)
    "C04-3": ("caught", ""),
    "C04-4": ("missed", "fail_all() was never generated and no run followed another on one instance in C04. Added a prelude run of another group using a cross-path signal on the same instance."),
    "C05-3": ("missed", "the oracle was silent under validation-mode: match. Added clause match_mode_ignored for the error kinds where the unchanged library honours 'match' (all but an exception inside a match-position function)."),
    "C05-4": ("missed", "no erroring subtree contained an empty-string term. Added the empty_term decoration of the provokers."),
    "C07-3": ("missed (first reported as caught: the VIOLATION line came from a false alarm of the function zoo - count_bytes() - on the same batch, found when the zoo was cleaned and the change re-measured)", "next() was consumed with a copy per yield, hiding aliasing; collect() projection was never generated. The very objects next() yields are now kept and compared after the run; collect(...) projections are generated."),
    "C07-4": ("missed (same false-alarm story as C07-3)", "run-mode: no-run and projections beyond the line were not generated. Added; the three entry points must also agree on whether they raise."),
    "C08-3": ("caught", ""),
    "C08-4": ("missed (same false-alarm story as C07-3)", "files never held two identical records. Added exact duplicate records and the clause that collect_by_line and next_by_line hand the same lines to the caller."),
    "C09-3": ("missed", "cross-path signals were excluded from every generator. C09 now generates fail_all/stop_all/skip_all/advance_all (its oracle only compares memory with disk); the member-directory clause is relaxed for members a stop_all() kept from starting."),
    "C09-4": ("caught", ""),
    "C10-3": ("missed", "no run was left unfinished in C10 histories. Added unfinished generator runs before a run on a reused instance (modelled as runs that own a directory and a second)."),
    "C10-4": ("missed", "the oracle was silent when the most recent run kept no data. Now the reference may fail but must not resolve into another run's directory."),
    "C11-3": ("caught", ""),
    "C11-4": ("caught", ""),
    "C12-3": ("caught", ""),
    "C12-4": ("missed", "identities never looked like positions. Added all-digit identities placed at other positions, mixed with unidentified members."),
    "C18-3": ("caught", ""),
    "C18-4": ("caught (history replay)", "the shared default list makes the violation depend on earlier scenarios in the same process: reported through a history replay file"),
    "C19-3": ("missed", "no job had a source-mode: preceding member (every result data file is called data.csv). Added chain jobs."),
    "C19-4": ("missed", "no data made Python emit a warning. Added cells with unknown time zones and date()/regex components that warn, so the process-wide warnings filter becomes observable."),
    "C20-3": ("missed", "a results reference was never the file of a chain with a preceding member. Added the replay_chain workload."),
    "C20-4": ("missed", "the reader always scanned a file with the same column layout as the referenced group's. Added a permuted layout."),
    # ---- round 3 (sites and mechanisms of rounds 1 and 2 excluded)
    "C04-5": ("caught", ""),
    "C04-6": ("missed", "members never shared an identity. Added groups whose members are written with the same id (only the aggregates are asserted for them)."),
    "C05-5": ("missed", "every scenario had its own Config object. Standalone scenarios may now be preceded by another CsvPath sharing the Config, run with a contradicting validation-mode."),
    "C05-6": ("missed", "import() was excluded from all generators. The erroring component can now live in another named-paths group and be pulled in with import()."),
    "C07-5": ("missed", "cells never had leading/trailing whitespace in C07 files. Added."),
    "C07-6": ("caught", ""),
    "C08-5": ("missed", "C08 members never set modes in their comments. Added return-mode, logic-mode, unmatched-mode."),
    "C08-6": ("caught", ""),
    "C09-5": ("missed", "line-rewriting functions were excluded everywhere. C09 (and C19) now generate append()/replace()."),
    "C09-6": ("caught", ""),
    "C10-5": ("caught", ""),
    "C10-6": ("caught", ""),
    "C11-5": ("missed", "the oracle looked for every registered version by content anywhere under the name, so a version MOVED to another directory still counted. Each manifest entry's recorded path must now exist and hash to its fingerprint."),
    "C11-6": ("missed", "source file names with two dots were avoided. Added one."),
    "C12-5": ("caught", ""),
    "C12-6": ("caught", ""),
    "C18-5": ("missed", "every abort went through a match expression. Added an abort raised by limit_collection() (collect() projection on a short record), serial run forms."),
    "C18-6": ("caught", ""),
    "C19-5": ("missed", "no cell exceeded the csv field size limit. Added (rarely) a 140 kB cell."),
    "C19-6": ("missed", "append() was never generated, so shared header lists could not be mutated. Added append()/replace() and header-observing components."),
    "C20-5": ("caught (by the caller-stream clause of next_paths only)", "collect_paths was silent after an empty predecessor; the successor is now expected to read nothing."),
    "C20-6": ("caught", ""),
    # ---- round 4 (rounds 1-3 excluded; agents told to dig into the code the anchored files call)
    "C04-7": ("missed", "fail/fail_and_stop were never written with qualifiers. Added families fas_onmatch, plain_nocontrib, fas_nocontrib."),
    "C04-8": ("missed", "no member failed outside its match components. Added family abort_outside (collect() of an unknown header) in serial CsvPaths runs."),
    "C05-7": ("missed", "logic-mode OR was never used in C05. Added scenarios with the erroring component alone under logic-mode OR."),
    "C05-8": ("missed", "no rule violation was reported through or(). Added kind rule_in_or (or(boolean(..), boolean(..)))."),
    "C07-7": ("missed", "skip_blank_lines=False was never used. Added."),
    "C07-8": ("caught", ""),
    "C08-7": ("missed", "no physical line held only blanks. Added such lines to generated files."),
    "C08-8": ("caught", ""),
    "C09-7": ("missed", "no archived member file exceeded 64 KiB. Added (rarely) a 70 kB cell."),
    "C09-8": ("caught", ""),
    "C10-7": ("caught", ""),
    "C10-8": ("missed", "no two runs were ever interleaved. Added the interleaved-callers scenario: a generator run obtained, another whole run performed, then the generator iterated."),
    "C11-7": ("missed", "every registration succeeded. Added registrations that must fail (missing source / a directory)."),
    "C11-8": ("caught", ""),
    "C12-7": ("missed", "identities never ended in the letters of ':to'/':from'. Added."),
    "C12-8": ("caught", ""),
    "C18-7": ("caught", ""),
    "C18-8": ("caught", ""),
    "C19-7": ("missed", "every file had at least two records. Added header-only files."),
    "C19-8": ("missed", "all twins were forks and shared the zygote's hash seed. One job of every scenario now also runs in a real fresh interpreter under another PYTHONHASHSEED; more zoo components per job."),
    "C20-7": ("caught", ""),
    "C20-8": ("missed", "header names were never all digits. Added such names to the referenced files."),
    # ---- round 5 ----
    "C04-9": ("missed", "every member scanned the whole file. Added members whose scan selects no line (the group verdict must stay the conjunction)."),
    "C04-10": ("missed", "no family had an error on the LEFT of a when/do whose right side is fail(). Added family error_lhs_fail."),
    "C05-9": ("caught", ""),
    "C05-10": ("missed", "the print clause only asked whether anything was printed. Now at least one message per handled offending line is required."),
    "C07-9": ("caught", ""),
    "C07-10": ("caught", ""),
    "C08-9": ("caught", ""),
    "C08-10": ("caught", ""),
    "C09-9": ("caught", ""),
    "C09-10": ("caught", ""),
    "C10-9": ("missed", "interleaved callers only covered a generator run that had not been iterated yet, and the other run never used the same instance mid-way. Added part-way progress (0-3 lines) and same-instance runs of the other group."),
    "C10-10": ("missed", "':last' was only resolved through an idle instance. Added a run of another group over '$g.results.<year>:last.m', also in the very second of the referenced run; C20 replays now include that second too."),
    "C11-9": ("missed", "no I/O fault inside a registration. Added registrations whose copy into the store is torn by ENOSPC after 0/50/100% of the bytes, retried or not."),
    "C11-10": ("caught", ""),
    "C12-9": ("caught", ""),
    "C12-10": ("missed", "identities were single words. Added several-word identities and ones with '-', '_', '+'."),
    "C18-9": ("missed", "every abort was raised below Expression.matches/Function.matches and reached CsvPaths as a csvpath exception class. Added kind lasts_exc: a raw exception while last() is evaluated on a blank final line."),
    "C18-10": ("missed", "no aborting error carried a __cause__. Added kinds exc_chained (simfault raising `from` a cause) and date_raise (date() on an unparsable cell)."),
    "C19-9": ("missed", "no two jobs differed only by blanks inside a literal. Added whitespace-sibling jobs and literals with blanks."),
    "C19-10": ("caught", ""),
    "C20-9": ("missed", "chains had the mode on a pure suffix. Added mixed chains (a member without the mode after one with it)."),
    "C20-10": ("missed", "references never named a stack variable nor a variable two members set. Added both (the latter against the manager's merged view)."),
    # ---- round 6 ----
    "C04-11": ("missed", "no member carried explain-mode. Added (the explanation dump must not execute anything)."),
    "C04-12": ("missed", "no I/O fault at the policy's print step. Added stratum P: an error handled while every write to stdout raises ENOSPC."),
    "C05-11": ("missed", "the match-mode clause was not asserted under a policy with stop. Now asserted unless 'stop' is written in the validation-mode comment itself."),
    "C05-12": ("missed", "one erroring component per line. Added a second one on the offending lines; one record and one message per raised error."),
    "C07-11": ("missed", "entry points were always called with the csvpath text. Added parse() + advance(k) before the entry point."),
    "C07-12": ("caught", ""),
    "C08-11": ("caught", ""),
    "C08-12": ("missed", "the line-count/header cache was always whole. Added: half of the cache entries lost between two runs."),
    "C09-11": ("missed", "no member used transfer-mode. Added (a transfer that cannot be made raises today: such runs are not asserted)."),
    "C09-12": ("caught (frozen clock is the default)", ""),
    "C10-11": ("caught", ""),
    "C10-12": ("missed", "the interleaved run always started in A's second and ':last' was not asked afterwards. Added a delay before B and ':last'/':first' after both."),
    "C11-11": ("missed", "only add_named_file was driven. Added set_named_files() with a missing source among the entries."),
    "C11-12": ("missed", "a torn copy was retried with the source unchanged, and the seam sat on shutil only. Added: source rewritten (same length) before the retry; torn writes also at open() level."),
    "C12-11": ("missed", "the identifying comment was always the leading one and inner comments never looked like metadata. Added second/trailing placement and inner 'id: x' comments."),
    "C12-12": ("missed", "the logging level was fixed. Worlds now vary it (error/info/debug)."),
    "C18-11": ("caught", ""),
    "C18-12": ("missed", "members ordered after the aborting one in a breadth-first run were not asserted. Added clause later_member_completed."),
    "C19-11": ("missed", "warm caches were always whole and files never began with a blank line. Added torn cache entries and such files."),
    "C20-11": ("missed", "no member of the referenced group read its own group's variables mid-run. Added."),
    "C20-12": ("missed", "chains were never interrupted. Added: another run on the same instance while the chain generator is part-way."),
    # ---- round 7 (first encounter measured with the checks as committed before the round: /verif 070a605) ----
    "C04-13": ("missed - not chased", "its trigger is a member whose scan part does not parse; for such groups the unchanged tree itself has results_manager.is_valid != run manifest all_valid (the member gets no result), so the statement's domain (generated, parseable csvpaths) ends before it. Recorded in DESIGN 11.3."),
    "C04-14": ("missed", "config.ini never changed during a scenario. Added: the error policy in config.ini is edited between two runs on one instance."),
    "C05-13": ("caught", ""),
    "C05-14": ("caught", ""),
    "C07-13": ("caught", ""),
    "C07-14": ("missed by C07 (needs a managed run: outside its twins), caught by C09", "no I/O fault inside a run. Added to C09: one write to data.csv/unmatched.csv torn by ENOSPC; a failure that is on record relaxes the clauses, a silent one does not. Rechecked with ./check C09 (seeded/C07-14/check_with)."),
    "C08-13": ("missed", "results were only read after the run. Added a consumer that reads len(result) and result.lines on every yielded line."),
    "C08-14": ("caught (the simulated clock stands still by default)", ""),
    "C09-13": ("caught", ""),
    "C09-14": ("missed", "no manager call ever failed on the instance before a run. Added failed add_named_paths_from_dir/_from_json/set_named_files_from_json/set_named_paths calls."),
    "C10-13": ("caught", ""),
    "C10-14": ("caught", ""),
    "C11-13": ("missed", "faults only tore the copy. Added the generic I/O fault seam (verifsim/iofault.py): the k-th file-system call inside the store fails, then the registration is retried."),
    "C11-14": ("missed", "source names were ASCII. Added a file name that is not valid UTF-8."),
    "C12-13": ("missed", "no fault between the steps of an add. Added the I/O fault seam to adds, followed by a retry or by putting the previous content back."),
    "C12-14": ("missed", "same seam: a failed READ of manifest.json during an add."),
    "C18-13": ("caught", ""),
    "C18-14": ("caught", ""),
    "C19-13": ("missed", "no header cell held a character that only str.splitlines() treats as a line break. Added \\x0c, \\x1c/\\x1d, \\x85, \\u2028."),
    "C19-14": ("missed", "every job used the same function table. Added an external function known only through one job's own imports file, after a csvpath naming an unknown function."),
    "C20-13": ("caught", ""),
    "C20-14": ("missed", "a chain was never interrupted by ANOTHER instance running the same group. Added."),
    # ---- round 8 (first encounter measured with the checks as committed before the round: /verif 3f4c364) ----
    "C04-15": ("missed", "no member imported its rule. Added family imported_plain (several members import the same csvpath that holds a fail())."),
    "C04-16": ("missed", "cross-path signals only appeared in a prelude run. Added family fail_all_stop_all (both on one line of a breadth-first run, signalling member first)."),
    "C05-15": ("caught", ""),
    "C05-16": ("missed", "stand-alone runs always used CsvPath(config=...). Added a CsvPath handed out by CsvPaths.csvpath() and run directly."),
    "C07-15": ("missed", "reset_headers() and append() never met. Added the pair through non-contributing when/do components."),
    "C07-16": ("caught", ""),
    "C08-15": ("missed", "no member carried print-mode. Added print-mode: no-default."),
    "C08-16": ("missed", "every member had an identity and a text of its own. Added the same unidentified csvpath twice in a group (members keyed by position)."),
    "C09-15": ("missed", "two things: the torn write landed mostly in data.csv, and the frozen clock made the change's `return elapsed` falsy. The torn write now targets one kind of member file, and the time shim ticks with the simulated clock when a scenario asks for a ticking clock."),
    "C09-16": ("missed", "nothing printed to a named printer. Added."),
    "C10-15": ("caught", ""),
    "C10-16": ("missed", "the process always lived in UTC. Added histories around the hour in which a daylight-saving zone (TZ) falls back."),
    "C11-15": ("caught", ""),
    "C11-16": ("missed", "config.ini always named the inputs directories plainly. Worlds may now write them as ./inputs or .//inputs."),
    "C12-15": ("caught", ""),
    "C12-16": ("missed", "identities started with ASCII letters. Added identities starting with a non-ASCII letter."),
    "C18-15": ("caught", ""),
    "C18-16": ("caught", ""),
    "C19-15": ("missed", "no I/O fault while a job READS its file. Added a transient read error inside a job; the jobs after it are compared."),
    "C19-16": ("missed", "print_line() only appeared without arguments. Added its one- and two-argument forms to the function zoo."),
    "C20-15": ("missed", "header cells were clean and filters went by position. Added header cells that need cleaning and filters by header name."),
    "C20-16": ("missed", "a csvpath held at most one reference per datum. Added two keys of one tracked variable, the whole variable, and the same header of two members."),
    # ---- round 9 (first encounter measured with the checks as committed before the round: /verif 9467733) ----
    "C04-17": ("missed", "fail_and_stop() only appeared at the top level or on the right of '->'. Added family nested_fas_and (a stopper as an argument of and())."),
    "C04-18": ("missed", "fail_all() only appeared in by-line runs. Added family fail_all_first (first member of a next_paths() run, members after it)."),
    "C05-17": ("caught", ""),
    "C05-18": ("missed", "the policy was always in place before the instance was created. Added: created under a policy with raise, narrowed on the instance's Config afterwards."),
    "C07-17": ("caught", ""),
    "C07-18": ("caught", ""),
    "C08-17": ("missed", "the named file never changed during a run. Added: registered anew while the serial generator run is suspended."),
    "C08-18": ("caught", ""),
    "C09-17": ("caught", ""),
    "C09-18": ("missed", "no member carried files-mode. Added (C09, C18, C19)."),
    "C10-17": ("caught (the simulated clock stands still by default)", ""),
    "C10-18": ("missed", "clock values were whole seconds. Added sub-second starts and a +0.6 s step."),
    "C11-17": ("missed", "add_named_files_from_dir() was never driven. Added, over directories in which two files share a stem."),
    "C11-18": ("missed", "removes never failed. Added removes that die part-way (a failing rmtree has already deleted one file) and are retried."),
    "C12-17": ("missed", "config.ini named the directories without a trailing separator. Added the trailing '/' variant."),
    "C12-18": ("missed", "same as C11-18, for remove_named_paths()."),
    "C18-17": ("missed", "no member carried files-mode. Added."),
    "C18-18": ("missed", "the projection abort was serial-only (in a group the narrowed line leaks to other members). Added the one-member collecting breadth-first run."),
    "C19-17": ("missed", "no job carried files-mode. Added."),
    "C19-18": ("missed by C19 (its twins are runs of the same kind), caught by C08 at first contact", "managed-vs-stand-alone is C08's comparison; rechecked with ./check C08 (seeded/C19-18/check_with)."),
    "C20-17": ("missed", "results references always carried a date prefix. Added the bare form $g.results.:last.<id> (C10, C20)."),
    "C20-18": ("missed", "referenced members always had an identity. Added members known only by position, referenced by index."),
}


def main():
    want = sys.argv[1:] or sorted(os.path.basename(d) for d in glob.glob(os.path.join(VERIF, "seeded", "C*-*")))
    for sid in want:
        pid, i = sid.split("-")
        d = os.path.join(VERIF, "seeded", sid)
        def _last(fn):
            try:
                with open(os.path.join(d, fn), encoding="utf-8") as f:
                    t = f.read().strip().splitlines()
                return t[-1][:300] if t else ""
            except OSError:
                return None

        old = {}
        try:
            with open(os.path.join(d, "meta.json"), encoding="utf-8") as f:
                old = json.load(f)
        except (OSError, ValueError):
            pass
        m = None
        clauses = (old.get("current_check") or {}).get("violation_clauses", [])
        notes = ""
        try:
            with open(os.path.join(d, "notes.md"), encoding="utf-8") as f:
                notes = f.read()
        except OSError:
            pass
        needs = ""
        for line in notes.splitlines():
            if re.search(r"[Nn]eeded to manifest|[Tt]rigger|What is needed|[Nn]eeds? to manifest|Does not trigger|to manifest", line):
                needs = re.sub(r"^[\s\-\*]+", "", line).strip()[:600]
                break
        if not needs and notes.strip():
            needs = notes.strip().splitlines()[0].strip("# ")[:300]
        tests = ""
        try:
            with open(os.path.join(d, "tests.txt"), encoding="utf-8") as f:
                tests = f.read().strip()
        except OSError:
            tests = "not run"
        meta = {
            "id": sid,
            "property_broken": pid,
            "author": "independent sub-agent given only the property text and its own scratch worktree (/tmp/seed-%s or /tmp/seed2-%s; recreate with `git -C /repo worktree add --detach <dir> HEAD` to run demo.py)" % (pid, pid),
            "round": (int(i) + 1) // 2,
            "needs_to_manifest": needs,
            "files": {"patch": "patch.diff", "demonstration": "demo.py", "author_notes": "notes.md"},
            "confirmed_by_me": {
                "demo_without_change_last_line": _last("demo_without.log"),
                "demo_with_change_last_line": _last("demo_with.log"),
                "demo_exit": "0 without the change, non-zero with it (printed by tools/seed_check.sh when the change was first run)",
                "pinned_suite_with_change": tests,
                "how": "tools/seed_check.sh (demo in the scratch worktree with and without the change) and tools/seed_tests.sh (whole pinned suite with the change, passed set compared with BASELINE.json stable_pass)",
            },
            "first_encounter": FIRST.get(sid, ("", ""))[0],
            "strengthening": FIRST.get(sid, ("", ""))[1],
            "current_check": {
                "command": (old.get("current_check") or {}).get("command") or f"git -C /repo apply seeded/{sid}/patch.diff && ./check {pid} --tier quick ; git -C /repo checkout -- .",
                "exit": (old.get("current_check") or {}).get("exit"),
                "violation_clauses": clauses,
            },
        }
        with open(os.path.join(d, "meta.json"), "w", encoding="utf-8") as f:
            json.dump(meta, f, indent=1)
        print(sid, meta["current_check"]["exit"], clauses, "| tests:", tests.splitlines()[-1] if tests else "")


if __name__ == "__main__":
    main()

#!/bin/sh
# tools/seed_tests.sh <PID> : for i in 1 2, apply /tmp/seed-<PID>/change<i>.diff in that worktree, run the whole
# pinned suite there, compare the passed set with BASELINE.json, revert; result in /verif/seeded/<PID>-<i>/tests.txt
pid="$1"
r="${ROUND:-1}"
if [ "$r" = "1" ]; then wt="/tmp/seed-$pid"; off=0; else wt="/tmp/seed$r-$pid"; off=$((2*(r-1))); fi
for i in 1 2; do
  [ -f "$wt/change$i.diff" ] || continue
  dst="/verif/seeded/$pid-$((i+off))"; mkdir -p "$dst"
  cd "$wt" && git checkout -q -- csvpath && git apply "change$i.diff" || { echo "apply failed" > "$dst/tests.txt"; continue; }
  timeout 3000 /venv/bin/python -m pytest -q -p no:cacheprovider --timeout=900 --continue-on-collection-errors --junitxml="/tmp/seed-$pid-$i.junit.xml" > "/tmp/seed-$pid-$i.pytest.log" 2>&1
  tail -1 "/tmp/seed-$pid-$i.pytest.log" > "$dst/tests.txt"
  python3 /verif/tools/compare_baseline.py "/tmp/seed-$pid-$i.junit.xml" >> "$dst/tests.txt" 2>&1
  git checkout -q -- csvpath
  git clean -fdq archive cache inputs logs transfers 2>/dev/null
  rm -f "/tmp/seed-$pid-$i.junit.xml" "/tmp/seed-$pid-$i.pytest.log"
done

#!/usr/bin/env python3
"""tools/seed_recheck.py [SID ...]: re-runs the property's quick check against each stored seeded change
(git -C /repo apply seeded/<SID>/patch.diff; ./check <PID> --tier quick; git -C /repo checkout -- .) and
updates seeded/<SID>/meta.json['current_check'].  Needs no scratch worktree."""
import glob
import json
import os
import re
import subprocess
import sys

VERIF = os.path.dirname(os.path.dirname(os.path.abspath(__file__)))


def main():
    want = sys.argv[1:] or sorted(os.path.basename(d) for d in glob.glob(os.path.join(VERIF, "seeded", "C*-*")))
    missed = []
    for sid in want:
        pid = sid.split("-")[0]
        d = os.path.join(VERIF, "seeded", sid)
        # a change delivered for one property may be the business of another property's check (seeded/<sid>/check_with)
        cw = os.path.join(d, "check_with")
        if os.path.exists(cw):
            with open(cw, encoding="utf-8") as f:
                pid = f.read().strip() or pid
        if subprocess.run(["git", "-C", "/repo", "diff", "--quiet"]).returncode != 0:
            print("/repo is dirty - refusing")
            return 3
        subprocess.run(["git", "-C", "/repo", "apply", os.path.join(d, "patch.diff")], check=True)
        try:
            r = subprocess.run([os.path.join(VERIF, "check"), pid, "--tier", "quick", "--no-evidence"], capture_output=True, text=True, errors="replace", cwd=VERIF)
        finally:
            subprocess.run(["git", "-C", "/repo", "checkout", "--", "."], check=True)
        clauses = sorted({re.sub(r"^[^-]+-\d+-", "", os.path.basename(x))[:-5] for x in re.findall(r"replay=(\S+)", r.stdout)})
        mp = os.path.join(d, "meta.json")
        meta = {}
        if os.path.exists(mp):
            with open(mp, encoding="utf-8") as f:
                meta = json.load(f)
        meta["current_check"] = {
            "command": f"git -C /repo apply seeded/{sid}/patch.diff && ./check {pid} --tier quick ; git -C /repo checkout -- .",
            "exit": r.returncode,
            "violation_clauses": clauses,
        }
        with open(mp, "w", encoding="utf-8") as f:
            json.dump(meta, f, indent=1)
        print(sid, r.returncode, clauses, flush=True)
        if r.returncode != 1:
            missed.append(sid)
    print("not caught:", missed)
    return 0


if __name__ == "__main__":
    sys.exit(main())

#!/usr/bin/env python3
"""tools/mkmutant.py <name> <repo-relative file> <<'EOF'
<old text>
=====
<new text>
EOF
Writes /verif/mutants/<name>.patch (unified diff against /repo's working tree,
paths a/<file> b/<file>).  Several edits of the same or other files can be
chained by repeating the call with --append."""
import difflib
import os
import sys

VERIF = os.path.dirname(os.path.dirname(os.path.abspath(__file__)))


def main():
    args = [a for a in sys.argv[1:] if a != "--append"]
    append = "--append" in sys.argv
    name, rel = args[0], args[1]
    spec = sys.stdin.read()
    old, new = spec.split("\n=====\n")
    old = old.strip("\n")
    new = new.rstrip("\n").lstrip("\n") if new.strip() else ""
    path = os.path.join("/repo", rel)
    with open(path, encoding="utf-8") as f:
        src = f.read()
    if src.count(old) != 1:
        print(f"old text occurs {src.count(old)} times in {rel}", file=sys.stderr)
        sys.exit(1)
    dst = src.replace(old, new)
    diff = "".join(difflib.unified_diff(src.splitlines(True), dst.splitlines(True), f"a/{rel}", f"b/{rel}"))
    out = os.path.join(VERIF, "mutants", name + ".patch")
    with open(out, "a" if append else "w", encoding="utf-8") as f:
        f.write(diff)
    print("wrote", out)


if __name__ == "__main__":
    main()

#!/bin/sh
# tools/run_mutants.sh [pattern]  - runs every mutants/<prop>_*.patch against the check
# named by its file-name prefix (cNN_...) and appends one line per mutant to mutants/RESULTS.txt
cd /verif || exit 2
pat="${1:-}"
[ -z "$pat" ] && : > mutants/RESULTS.txt
for f in mutants/*${pat}*.patch; do
  b="$(basename "$f")"
  prop="$(echo "$b" | cut -c1-3 | tr a-z A-Z)"
  n=""
  case "$prop" in
    C05) n="--n 2688";; C08) n="--n 120";; C18) n="--n 120";; C19) n="--n 300";; C11) n="--n 4000";; C12) n="--n 600";;
    C10) n="--n 800";; C09) n="--n 600";; C07) n="--n 800";; C04) n="--n 1600";; C20) n="--n 900";;
  esac
  out="$(tools/mutant_run.sh "$f" "$prop" $n 2>&1)"
  rc="$(echo "$out" | grep -o 'exit=[0-9]*$' | tail -1)"
  clauses="$(echo "$out" | grep -o 'replay=/verif/replays/[^ ]*' | sed 's#.*/##; s#\.json##' | cut -d- -f3- | sort -u | tr '\n' ' ')"
  echo "$b $prop $rc $clauses" | tee -a mutants/RESULTS.txt
done
rm -rf replays

#!/usr/bin/env python3
"""tools/compare_baseline.py <junit.xml>: compares the passed set with BASELINE.json stable_pass."""
import json, sys, xml.etree.ElementTree as ET
base = set(json.load(open("/root/.vp/BASELINE.json"))["stable_pass"])
passed = set()
for tc in ET.parse(sys.argv[1]).getroot().iter("testcase"):
    ok = not any(ch.tag in ("failure", "error", "skipped") for ch in tc)
    if ok:
        passed.add(f"{tc.get('classname')}::{tc.get('name')}")
print("stable_pass", len(base), "passed now", len(passed), "missing", sorted(base - passed)[:10], "extra", len(passed - base))
sys.exit(0 if base <= passed else 1)

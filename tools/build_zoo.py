#!/venv/bin/python
"""Builds verifsim/zoo.json: a list of match components using many different
csvpath functions, each verified to parse and run on the current tree.

The twin-based oracles (C07, C08, C19) never need to know what a component
*means* - only that it is valid and deterministic - so the wider the set of
functions, the more per-function and per-process state they exercise.
Left out on purpose: functions whose value depends on the run form or the
environment by definition - now/today/thismonth/thisyear, random/shuffle, import,
jinja, and count_bytes() (bytes spooled so far: 0 or an AttributeError outside a
collecting run) and run_table() (prints the run's own metadata, incl. how many lines were collected so far).
Placeholders: {i} unique suffix, {h} {g} header indexes (1..n)."""
import json
import os
import sys

sys.path.insert(0, os.path.dirname(os.path.dirname(os.path.abspath(__file__))))

CANDIDATES = [
    "@med{i} = median(#{h})", "@med{i} = median(#{h}, \"line\")", "@avg{i} = average(#{h})", "@avg{i} = average(#{h}, \"scan\")",
    "@mx{i} = max(#{h})", "@mn{i} = min(#{h})", "@mx{i} = max(#{h}, \"match\")", "@sum{i} = sum(#{h})", "subtotal(#{g}, #{h})",
    "@pct{i} = percent(\"match\")", "@pu{i} = percent_unique(#{h})", "@sd{i} = stdev(stack(\"zs{i}\"))", "@psd{i} = pstdev(stack(\"zs{i}\"))",
    "@cd{i} = count_dups()", "has_dups()", "@dl{i} = dup_lines(#{h})", "@f{i} = first(#{h})", "every(#{h}, 2)", "@ctr{i} = counter.c{i}(1)",
    "increment.inc{i}(yes(), 2)", "regex(#{h}, /a|b/)", "@rx{i} = regex(/[0-9]+/, #{h})", "starts_with(#{h}, \"a\")", "@sub{i} = substring(#{h}, 1)",
    "@st{i} = strip(#{h})", "@len{i} = length(#{h})", "min_length(#{h}, 1)", "max_length(#{h}, 3)", "too_long(#{h}, 2)", "too_short(#{h}, 2)",
    "@cc{i} = concat(#{h}, \"-\", #{g})", "@up{i} = upper(#{h})", "@lo{i} = lower(#{h})", "@mp{i} = metaphone(#{h})",
    "between(#{h}, 1, 9)", "inside(#{h}, 2, 8)", "outside(#{h}, 2, 8)", "beyond(#{h}, 2, 8)", "range(#{h}, 1, 5)", "from_to(#{h}, 1, 5)",
    "any(headers(), \"a\")", "any(#{h})", "all(#{h}, #{g})", "exists(#{h})", "missing(#{h})", "in(#{h}, \"a|b|3\")", "or(#{h} == \"a\", #{g} == \"3\")",
    "and(exists(#{h}), not(empty(#{g})))", "not(#{h} == \"b\")", "empty(#{h})", "above(#{h}, 3)", "below(#{h}, 7)", "gt(#{h}, 3)", "lt(#{h}, 7)",
    "gte(#{h}, 3)", "lte(#{h}, 7)", "before(#{h}, 5)", "after(#{h}, 5)", "equals(#{h}, #{g})", "eq(#{h}, \"a\")", "@rd{i} = round(#{h}, 1)",
    "@md{i} = mod(#{h}, 3)", "@mul{i} = multiply(#{h}, 2)", "@dv{i} = divide(#{h}, 2)", "@sb{i} = subtract(#{h}, 1)", "@mi{i} = minus(#{h})",
    "@ad{i} = add(#{h}, #{g})", "@in{i} = int(#{h})", "@fl{i} = float(#{h})", "@tl{i} = total_lines()", "@ch{i} = count_headers()",
    "@chl{i} = count_headers_in_line()", "@hn{i} = header_name({h})", "@hi{i} = header_index(\"{h}\")", "@e{i} = end()", "@e{i} = end(1)",
    "mismatch()", "@mm{i} = mismatch(\"signed\")", "header_names_mismatch(\"id|1|2\")", "@lf{i} = line_fingerprint()", "@ff{i} = file_fingerprint()",
    "store_line_fingerprint()", "after_blank()", "first_line()", "@vars{i} = variables()", "put(\"pk{i}\", #{h}, line_number())", "@gt{i} = get(\"pk{i}\", #{h})",
    "track(#{h}, #{g})", "push(\"zs{i}\", #{h})", "push_distinct(\"zd{i}\", #{h})", "@pp{i} = pop(\"zs{i}\")", "@pk{i} = peek(\"zs{i}\", 0)", "@ps{i} = peek_size(\"zs{i}\")",
    "@sz{i} = size(\"zs{i}\")", "@stk{i} = stack(\"zs{i}\")", "empty_stack()", "@es{i} = empty_stack(#{h})", "failed()", "valid()", "@hm{i} = has_matches()",
    "count_lines() == 3", "@cs{i} = count_scans()", "count() == 2", "@cn{i} = count(#{h} == \"a\")", "tally(#{h}, #{g})",
    "string(#{h})", "integer(#{h})", "decimal(#{h})", "boolean(#{h})", "none(#{h})", "blank(#{h})", "wildcard()", "nonspecific(#{h})",
    "line(string(#0), wildcard())", "date(#{h}, \"%Y\")", "exact(#{h}, \"a\")", "true()", "false() -> @ff{i} = 1", "no()",
    "print_line()", "print(\"z{i} $.csvpath.count_matches $.variables.zs{i}.length $.headers.{h} $.csvpath.total_lines\")", "print.onmatch(\"m{i} $.csvpath.line_number\")",
    "print.once(\"once{i}\")", "header_table()", "row_table()", "var_table()", "@x{i}.latch = #{h}", "@x{i}.onchange = #{h}", "@x{i}.increase = int(#{h})",
    "@x{i}.notnone = #{h}", "@x{i}.asbool = #{h}", "@x{i}.nocontrib = #{h}", "#{h}.nocontrib == \"a\"", "@y{i} = @x{i}", "@y{i} == #{h}", "#{h} == #{g}",
    "last.nocontrib() -> @lst{i} = count_scans()", "first_line.nocontrib() -> @fst{i} = 1", "line_number() == 2 -> @w{i} = #{h}", "yes() -> push(\"zs{i}\", line_number())",
    "date(#{h})", "datetime(#{h})", "regex(#{h}, /[[a-z]]/)", "regex(#{h}, /a{{1,2}}b/)", "exact(#{h}, /x|y/)",
    "skip(#{h} == \"c\")", "stop(#{h} == \"FAIL\")", "fail_and_stop(#{g} == \"FAIL\")", "advance(1)", "exists(#{h}) -> advance(1)",
]


# components that rewrite or project the line; kept apart because C08's statement excludes them
REWRITE = [
    "append(\"ap{i}\", #{h})", "append(\"aq{i}\", count(), yes())", "replace(#{h}, upper(#{h}))", "replace(#{g}, \"***\")", "replace({h}, concat(#{h}, \"!\"))",
    "collect(0, {h})", "collect({h})",
]


def main():
    from verifsim import sim, seams, world as W, ops

    seams.reset(1)
    rows = [["id", "h1", "h2"], ["r1", "a", "3"], ["r2", "5", "b"], [], ["r4", "", "0.5"], ["r5", "FAIL", "12"], ["r6", "c", "a"]]
    ok, bad = [], []
    with W.World(csvpath_policy=["collect"]) as w:
        w.write_csv("src/f.csv", rows)
        for c in CANDIDATES + REWRITE:
            comp = c.replace("{i}", "0").replace("{h}", "1").replace("{g}", "2")
            try:
                with ops.quiet():
                    cp, printed, lines = ops.standalone(f'$src/f.csv[*][ {comp}  push("zs0", #1) ]')
                    cp2, printed2, lines2 = ops.standalone(f'$src/f.csv[*][ {comp}  push("zs0", #1) ]')
                a = json.dumps(ops.path_state(cp, lines=lines, printouts=printed), sort_keys=True, default=str)
                b = json.dumps(ops.path_state(cp2, lines=lines2, printouts=printed2), sort_keys=True, default=str)
                if a != b:
                    bad.append((c, "not deterministic"))
                    continue
                json.dumps(ops.jsonable_plain(cp.variables))
                msgs = [e[2] for e in ops.norm_errors(cp.errors)]
                if any("Incorrectly written" in m or "nknown function" in m for m in msgs):
                    bad.append((c, "structurally invalid: " + msgs[0][:80]))
                    continue
                ok.append(c)
            except Exception as e:  # noqa: BLE001
                bad.append((c, f"{type(e).__name__}: {str(e)[:80]}"))
    W.remove_base()
    out = os.path.join(os.path.dirname(os.path.dirname(os.path.abspath(__file__))), "verifsim", "zoo.json")
    with open(out, "w", encoding="utf-8") as f:
        json.dump({"zoo": [c for c in ok if c not in REWRITE], "rewrite": [c for c in ok if c in REWRITE]}, f, indent=0)
    print(f"accepted {len(ok)} of {len(CANDIDATES)}")
    for c, why in bad:
        print("  rejected:", c, "|", why)


if __name__ == "__main__":
    main()

#!/bin/sh
# tools/thorough_all.sh [workers]: every thorough check in turn (background soak; with $VP_RUN_REPO as the code under test when set)
cd "$(dirname "$0")/.." || exit 2
w="${1:-8}"
[ -n "${VP_RUN_REPO:-}" ] && export VERIF_REPO="$VP_RUN_REPO"
for p in C10 C05 C18 C19 C08 C07 C12 C09 C04 C20 C11; do
  echo "=== $p $(date +%H:%M:%S)"; ./check $p --tier thorough --workers "$w" --no-evidence 2>&1 | grep -v "^\[$p\] shrink" | tail -12
done

#!/bin/sh
# tools/seed_check.sh <PID> <i> [extra check args]
# 1. copies /tmp/seed-<PID>/{change<i>.diff,demo<i>.py,notes<i>.md} to /verif/seeded/<PID>-<i>/
# 2. confirms in the scratch worktree: demo passes without the change, fails with it
# 3. applies the change to /repo, runs ./check <PID> (quick sized), reverts /repo straight afterwards
set -u
pid="$1"; i="$2"; shift 2
# ROUND=r (r>=2): the change comes from /tmp/seed<r>-<PID>/change<i>.diff and is stored as seeded/<PID>-<i+2(r-1)>
r="${ROUND:-1}"
if [ "$r" = "1" ]; then wt="/tmp/seed-$pid"; j="$i"; else wt="/tmp/seed$r-$pid"; j=$((i+2*(r-1))); fi
dst="/verif/seeded/$pid-$j"
mkdir -p "$dst"
cp "$wt/change$i.diff" "$dst/patch.diff" || exit 3
cp "$wt/demo$i.py" "$dst/demo.py"; cp "$wt/notes$i.md" "$dst/notes.md" 2>/dev/null
cd "$wt" || exit 3
git checkout -q -- csvpath
/venv/bin/python "demo$i.py" > "$dst/demo_without.log" 2>&1; rc0=$?
git apply "change$i.diff" || { echo "APPLY-FAILED"; exit 3; }
/venv/bin/python -c "import sys; sys.path.insert(0,'$wt'); import csvpath" > /dev/null 2>&1; rci=$?
/venv/bin/python "demo$i.py" > "$dst/demo_with.log" 2>&1; rc1=$?
git checkout -q -- csvpath
echo "demo without change: exit $rc0; import with change: exit $rci; demo with change: exit $rc1 ($(tail -1 "$dst/demo_with.log" | cut -c1-200))"
cd /verif
if ! git -C /repo diff --quiet; then echo "/repo is dirty - refusing"; exit 3; fi
git -C /repo apply "$dst/patch.diff" || { echo "APPLY-TO-REPO-FAILED"; exit 3; }
./check "$pid" --no-evidence "$@" > "$dst/check.log" 2>&1; rcc=$?
git -C /repo checkout -- .
grep -E "^VIOLATION|HARNESS-ERROR" "$dst/check.log" | cut -c1-200 | head -6
echo "SEED $pid-$j check exit=$rcc demo_without=$rc0 demo_with=$rc1"

#!/usr/bin/env python3
"""Regenerates /verif/MANIFEST.json from the table below (run after adding a check)."""
import json
import os

VERIF = os.path.dirname(os.path.dirname(os.path.abspath(__file__)))

NA = {
    "C01": "pure function of (csvpath text, file bytes, logic-mode): no schedule, clock, fault, crash or history enters it; needs a reference semantics + input generation, which is differential testing, not simulation",
    "C02": "pure function of (scan text, file); the stated space is small and meant to be enumerated exhaustively (model checking of a pure function), not sampled by a simulator",
    "C03": "deterministic fold over the lines of one run; no schedule, clock, fault or history to simulate",
    "C06": "pure function of (file bytes, delimiter, quotechar); dialect wiring is exercised only as a by-product of the C08/C09/C19/C20 worlds",
    "C13": "deterministic control flow inside one interpreter run; no fault, clock, schedule or history (schedule-dependence of stop/skip/advance is covered under C08)",
    "C14": "finite truth table of a pure function (256 qualifier subsets x value sequences): exhaustive enumeration is the right method and is not this family",
    "C15": "pure relations between outputs of one or two deterministic runs of the same program; nothing to schedule or inject",
    "C16": "pure function of (print template, line state)",
    "C17": "pure function of program text (parser ambiguity / layout insensitivity)",
}

COMMON_NOTE = (
    "Trusted base: the harness (verifsim: seams, generators, models, disk reader), CPython, the tmpfs file system. "
    "Sampling, not proof: a clean batch means no violation within reach of the generators in that many seeded runs. "
    "The simulated clock, uuid4, listdir order and stdout are shims; everything else is the real csvpath package from /repo's working tree."
)

CHECKS = {
    "C04": ("seeded simulation: fail events and handled errors injected at seeded (member, line) points through csvpath's external-function seam; one-bit reference model per member monitored online at every probe/yield and against both manifests on disk; one stratum handles the error while every write to stdout fails (ENOSPC), another edits config.ini between two runs", "5 C04",
            "Explores template families whose fail events are unambiguous by construction x 7 run forms x error policies with/without fail; decides monotonicity, valid()/failed() per line and aggregation into results manager and manifests. Not decided: whether an arbitrary program should reach its fail() (C01/C13 territory)."),
    "C05": ("seeded fault injection: nine error kinds planted at seeded line sets (optionally two erroring components per line) x all 64 policy subsets (stratified) x validation-mode overrides x standalone/factory/managed creation; outcome compared with a flag table", "5 C05",
            "Every (policy subset x fault kind) cell is visited in every batch; line positions, scan windows and file shapes are sampled."),
    "C07": ("seeded simulation of consumer cancellation: next() stepped one yield at a time as reference trace; collect(), fast_forward() and collect(nexts=n) for every n compared with the prefix state of that trace; the yielded objects are kept and re-read after the run", "5 C07",
            "Weakest fit for this family (said so in DESIGN.md): the only 'schedule' is where the consumer stops; self-relative oracle, not an independent semantics."),
    "C08": ("seeded schedule exploration: the two schedules the library has (path-major, line-major) x 3 methods each x member order x if_all_agree x dialect; every member compared with its standalone twin, caller-visible lines with union/intersection; between runs half of the line-count/header cache may be lost, a consumer may read the results on every yield, the named file may be registered anew while the serial generator is suspended", "5 C08",
            "Twin executions of the real code under different schedules; members exclude cross-path signals, references and line rewriting as the statement does."),
    "C09": ("seeded simulation of run histories (method x termination kind x nasty cells x new/reused instance x clock) with a disk-only archive reader compared against in-memory results and a tee at the spooler seam; sha256 of bytes on disk vs manifests; faults: abandoned generator runs, failed manager calls before a run, one write to a member file torn by ENOSPC, frozen or ticking clock", "5 C09",
            "Relational check of four representations (memory, data files, member manifest, run manifest) over sampled programs and data."),
    "C10": ("seeded simulation of run histories under a simulated UTC clock (same second, +1s, 12:59->13:00, midnight, +12h, backward step) x new/reused instance x group x 7 run forms x permuted directory listings; model of runs + tree hashes before/after every run + :last/:first resolution; two long-lived instances alternating, interleaved callers (a generator run part-way while another run happens), sub-second and daylight-saving clock values", "5 C10",
            "Flagship time property: every clock relation named in the statement is a generated profile; step-class-pair coverage is reported in the evidence."),
    "C11": ("seeded operation histories (add / re-add / mutate source / remove / bulk and directory registration / restart / swap between two long-lived instances, permuted listdir, clock profiles) against an abstract versioned content-addressed store, checked after every operation through a live and a fresh instance and by a disk walk; I/O faults: the k-th file-system call of a registration or removal fails (EIO) and the call is retried, the copy into the store is torn by ENOSPC (once or persistently)", "5 C11",
            "Model-based simulation of durable-state histories; restart = new CsvPaths over the same world, only durable state survives."),
    "C12": ("seeded operation histories (add / identical re-add / replace / remove / restart) against an abstract ordered-group store; lookups by name, #id, $name.csvpaths.id, :from, :to through a live and a fresh instance; manifest read from disk; I/O faults: the k-th file-system call of an add or remove fails (EIO) followed by a retry or by putting the previous content back, the group-file write torn by ENOSPC", "5 C12",
            "Model-based simulation; members carry identities in all six spellings with lower-precedence decoys, outer/inner comments and newlines."),
    "C18": ("fault-point sweep: for each seeded scenario a fault-free run records every (member, line) evaluation event, then the run is repeated in a fresh world with an abort armed at each event in turn; archive read back from disk, store tree hashes, recovery run on the same instance; eight ways of aborting (function error, chained error, planted cells, validation-mode raise, projection on a short record, raw exception under last())", "5 C18",
            "Complete sweep of abort points per scenario (crash-consistency idiom); scenarios themselves are sampled, so the level is exploration."),
    "C19": ("seeded job histories in one long-lived process x warm/cold persisted cache x direct/managed creation; each job compared with its twin run alone in a pristine forked process (one job per scenario also in a real fresh interpreter under another hash seed); the file may be replaced or read with another dialect between jobs, the cache may have lost half of its entries, a job may meet a transient read error", "5 C19",
            "Histories of process-global and persisted state; the pristine twin is a forked zygote that imported csvpath but never parsed or ran anything."),
    "C20": ("seeded simulation of chains (source-mode preceding on any suffix) against a reference executor that composes standalone stages; variable/header/results references against a model of the group's most recent run under the simulated clock; chains may be interrupted by another run on the same instance or by another instance running the same chain", "5 C20",
            "chain == composition of its stages; 'most recent run' is decided by the simulated clock."),
}


def main():
    built = [p for p in CHECKS if os.path.exists(os.path.join(VERIF, "verifsim", "props", p.lower() + ".py")) and os.path.exists(os.path.join(VERIF, "evidence", p + ".json"))]
    checks = []
    for pid in sorted(built):
        technique, ref, text = CHECKS[pid]
        checks.append(
            {
                "property_id": pid,
                "quick_cmd": f"./check {pid} --tier quick",
                "thorough_cmd": f"./check {pid} --tier thorough",
                "evidence_file": f"/verif/evidence/{pid}.json",
                "replay_cmd_template": f"./check {pid} --replay {{path}}",
                "engine": "verifsim",
                "level_claimed": {"category": "exploration", "text": text, "design_ref": f"DESIGN.md section {ref}"},
                "level_note": COMMON_NOTE,
                "technique": "deterministic simulation with fault injection - " + technique,
            }
        )
    na = [{"property_id": k, "reason": v} for k, v in sorted(NA.items())]
    for pid in sorted(CHECKS):
        if pid not in built:
            na.append({"property_id": pid, "reason": "claimed in DESIGN.md but its check is not built yet in this commit (work in progress); not applicable is NOT the verdict"})
    na.sort(key=lambda x: x["property_id"])
    m = {
        "version": 1,
        "setup_cmd": "/venv/bin/python -c \"import csvpath,sys; assert csvpath.__file__.startswith('/repo/'), csvpath.__file__\" && /venv/bin/python -c \"import sys; sys.path.insert(0,'/verif'); from verifsim import sim, world; w=world.World(); w.__enter__(); w.__exit__(); world.remove_base(); print('verifsim ok')\"",
        "hooks": {
            "guard": "CSVPATH_VERIF",
            "enable": "no hooks in /repo: clock, time, uuid4, os.listdir and stdout are patched from the harness before csvpath is imported; faults and probes enter through FunctionFactory.add_function; worlds are selected by cwd + config/config.ini. The guard variable is reserved and unused.",
            "baseline_off_cmd": "cd /repo && /venv/bin/python -m pytest -ra -q -p no:cacheprovider --timeout=900 --continue-on-collection-errors",
            "source_commits": [],
            "add_only": True,
        },
        "engines": [
            {
                "name": "verifsim",
                "path": "/verif/verifsim",
                "serves_properties": sorted(built),
                "kind_free_text": "seeded deterministic simulation of the real csvpath library in scratch worlds: simulated clock/uuid/listdir seams, fault injection through csvpath's external-function seam, reference models and twin executions as oracles, ddmin shrinking, replay files, known-findings triage",
            }
        ],
        "checks": checks,
        "not_applicable": na,
        "notes": "Deterministic simulation with fault injection (DESIGN.md). Exit 0 = held on everything explored (KNOWN-FINDING lines possible), 1 = VIOLATION line(s) with replay file, 2 = harness error/nondeterminism/inconclusive. VERIF_SEED and VERIF_TIER are honoured. Genuine defects repaired in /repo are listed as 'fixed:' entries in known_findings.json.",
    }
    with open(os.path.join(VERIF, "MANIFEST.json"), "w", encoding="utf-8") as f:
        json.dump(m, f, indent=1)
        f.write("\n")
    print("built:", built)


if __name__ == "__main__":
    main()

import sys, os, random, io, contextlib, json, csv, shutil, pickle
import csvpath                      # pristine parent: import only
from csvpath import CsvPath, CsvPaths
from csvpath.util.printer import TestPrinter
sys.argv_saved=sys.argv[:]
HCELLS=['h1','h 2','"q"','a,b','x;y',' pad ','ü','it\'s','"lead','tr"ail']
def gen_file(rng,path):
    ncol=rng.randint(2,4); hdr=["id"]+rng.sample(HCELLS,ncol-1)
    rows=[hdr]+[[f"r{i}"]+[rng.choice(["1","2","a","b",""]) for _ in range(ncol-1)] for i in range(rng.randint(1,6))]
    if rng.random()<0.3: rows.insert(rng.randint(0,len(rows)),[])
    with open(path,"w",newline="") as f: csv.writer(f).writerows(rows)
    return ncol
def gen_path(rng,ncol,fname):
    comps=[]
    for i in range(rng.randint(1,4)):
        k=rng.random(); c=rng.randint(1,ncol-1)
        if k<0.25: comps.append(f'@v{i} = #{c}')
        elif k<0.45: comps.append(f'push("s{i}", header_name({c}))')
        elif k<0.6: comps.append(f'#{c} == "a"')
        elif k<0.75: comps.append(f'@n{i} = count_headers()')
        elif k<0.9: comps.append(f'tally(#{c})')
        else: comps.append('last() -> @l = count_lines()')
    return f'${fname}[*][ ' + "  ".join(comps) + ' ]'
def do_job(job):
    kind,p=job
    with contextlib.redirect_stdout(io.StringIO()):
        c = CsvPath() if kind=="direct" else CsvPaths().csvpath()
        tp=TestPrinter(); c.add_printer(tp)
        try: L=c.collect(p); exc=None
        except Exception as e: L=None; exc=type(e).__name__
    return json.dumps(dict(lines=L,vars=c.variables,printed=tp.lines,valid=c.is_valid,scan=c.scan_count,match=c.match_count,headers=c.headers,errs=[(e.line_count,str(e.error)[:80]) for e in (c.errors or [])],exc=exc),sort_keys=True,default=str)
def in_child(fn,*a):
    r,w=os.pipe(); pid=os.fork()
    if pid==0:
        os.close(r)
        try: out=pickle.dumps(fn(*a))
        except BaseException as e: out=pickle.dumps(("CHILD-EXC",repr(e)))
        os.write(w,out); os._exit(0)
    os.close(w); buf=b""
    while True:
        b=os.read(r,65536)
        if not b: break
        buf+=b
    os.waitpid(pid,0); os.close(r); return pickle.loads(buf)
def history(jobs): return [do_job(j) for j in jobs]
seed0=int(sys.argv[1]); N=int(sys.argv[2]); bad={}; nj=0
for seed in range(seed0,seed0+N):
    rng=random.Random(seed)
    for d in ("archive","inputs","cache","cache.keep","twin"): shutil.rmtree(d, ignore_errors=True)
    files=[]
    for i in range(2):
        nc=gen_file(rng,f"f{i}.csv"); files.append((f"f{i}.csv",nc))
    jobs=[]
    for j in range(rng.randint(2,6)):
        fn,nc=rng.choice(files)
        jobs.append((rng.choice(["direct","managed"]), gen_path(rng,nc,fn)))
        if rng.random()<0.3: jobs.append(jobs[-1])
    warm = rng.random()<0.5
    if warm: in_child(history,[("managed",f'${fn}[*][ yes() ]') for fn,_ in files])   # earlier process populates cache
    got=in_child(history,jobs)
    # twins: pristine process, empty cache -> move cache aside
    shutil.rmtree("cache", ignore_errors=True)
    for j,job in enumerate(jobs):
        shutil.rmtree("cache", ignore_errors=True)
        exp=in_child(do_job,job); nj+=1
        if exp!=got[j]:
            bad.setdefault(("warm" if warm else "cold", job[0]),[]).append((seed,j,job,exp[:200],got[j][:200]))
    shutil.rmtree("cache", ignore_errors=True)
for kx,v in sorted(bad.items()): print(kx,len(v),v[0])
print("done jobs",nj)

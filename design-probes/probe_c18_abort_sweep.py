import sys, random, io, contextlib, json, csv, os, shutil, hashlib
from csvpath import CsvPaths
from csvpath.matching.functions.function_factory import FunctionFactory
from csvpath.matching.functions.function_focus import MatchDecider
from csvpath.matching.functions.args import Args
PLAN=set(); EV=[]
class SimFault(MatchDecider):
    def check_valid(self):
        self.args = Args(matchable=self); self.args.argset(0); self.args.validate(self.siblings()); super().check_valid()
    def _produce_value(self, skip=None): self.value = self.matches(skip=skip)
    def _decide_match(self, skip=None):
        k=(self.matcher.csvpath.identity, self.matcher.csvpath.line_monitor.physical_line_number)
        EV.append(k)
        if k in PLAN: raise RuntimeError(f"simfault at {k}")
        self.match = self.default_match()
FunctionFactory.add_function("simfault", SimFault(None,"simfault"))
def rd(p):
    with open(p,encoding="utf-8") as f: return json.load(f)
def tree(d):
    out={}
    for r,ds,fs in os.walk(d):
        for f in fs:
            p=os.path.join(r,f)
            with open(p,"rb") as fh: out[p]=hashlib.sha256(fh.read()).hexdigest()
    return out
METHS=["collect_paths","ff_paths","next_paths_c","collect_by_line","ff_by_line","next_by_line"]
def run(cs,meth,g="g"):
    with contextlib.redirect_stdout(io.StringIO()):
        if meth=="collect_paths": cs.collect_paths(pathsname=g, filename="f")
        elif meth=="ff_paths": cs.fast_forward_paths(pathsname=g, filename="f")
        elif meth=="next_paths_c": list(cs.next_paths(pathsname=g, filename="f", collect=True))
        elif meth=="collect_by_line": cs.collect_by_line(pathsname=g, filename="f")
        elif meth=="ff_by_line": cs.fast_forward_by_line(pathsname=g, filename="f")
        else: list(cs.next_by_line(pathsname=g, filename="f"))
seed0=int(sys.argv[1]); N=int(sys.argv[2]); bad={}; total=0
for seed in range(seed0,seed0+N):
    rng=random.Random(seed)
    nrec=rng.randint(2,7); k=rng.randint(1,3); meth=rng.choice(METHS)
    rows=[["id","a"]]+[[f"r{i}",str(rng.randint(0,9))] if rng.random()>0.15 else [] for i in range(1,nrec)]
    with open("f18.csv","w",newline="") as f: csv.writer(f).writerows(rows)
    scans=[rng.choice(["*","1*","0-2","*"]) for _ in range(k)]
    paths=[f'~id:m{i}~ $[{scans[i]}][ push("pre", line_number()) simfault() @c{i} = count() ]' for i in range(k)]
    # fault free
    for d in ("archive","inputs","cache"): shutil.rmtree(d, ignore_errors=True)
    PLAN.clear(); EV.clear()
    cs=CsvPaths(); cs.file_manager.add_named_file(name="f", path="f18.csv"); cs.paths_manager.add_named_paths(name="g", paths=paths)
    run(cs,meth); events=list(EV)
    for (mi,li) in events:
        total+=1
        for d in ("archive","inputs","cache"): shutil.rmtree(d, ignore_errors=True)
        PLAN.clear(); PLAN.add((mi,li)); EV.clear()
        cs=CsvPaths(); cs.file_manager.add_named_file(name="f", path="f18.csv"); cs.paths_manager.add_named_paths(name="g", paths=paths)
        stores=tree("inputs")
        exc=None
        try: run(cs,meth)
        except Exception as e: exc=e
        probs=[]
        if exc is None: probs.append("noexc")
        rs=cs.results_manager.get_named_results("g")
        rundir=rs[0].run_dir
        rm=rd(os.path.join(rundir,"manifest.json"))
        if rm.get("status")=="complete": probs.append("status_complete")
        idx=int(mi[1:])
        started = range(k) if "by_line" in meth else range(idx+1)
        last_line = cs.results_manager.get_named_results("g")[0].csvpath.line_monitor.physical_end_line_number
        for i in started:
            d=os.path.join(rundir,f"m{i}")
            try:
                rd(os.path.join(d,"meta.json")); rd(os.path.join(d,"vars.json")); e=rd(os.path.join(d,"errors.json")); m=rd(os.path.join(d,"manifest.json"))
            except Exception as ex:
                probs.append(f"unreadable m{i} {type(ex).__name__}"); continue
            if i==idx:
                if not any(x["line_count"]==li for x in e): probs.append("no_abort_error")
                if m["completed"] is not False: probs.append("completed_true_"+("lastline" if li==last_line else "scanlast"))
        if tree("inputs")!=stores: probs.append("stores_changed")
        # recovery
        PLAN.clear()
        try:
            run(cs,meth)
            rs2=cs.results_manager.get_named_results("g")
            if rs2[0].run_dir==rundir: probs.append("recovery_same_dir")
            elif rd(os.path.join(rs2[0].run_dir,"manifest.json")).get("status")!="complete": probs.append("recovery_not_complete")
        except Exception as ex: probs.append("recovery_exc "+type(ex).__name__)
        for pr in probs: bad.setdefault((meth,pr),[]).append((seed,mi,li,paths[idx]))
for kx,v in sorted(bad.items()): print(kx,len(v),v[0])
print("done total abort points",total)

import sys, random, io, contextlib, json, csv, os, shutil
from csvpath import CsvPaths
def rd(p):
    with open(p,encoding="utf-8") as f: return json.load(f)
METHS=["collect_paths","ff_paths","next_paths_c","next_paths","collect_by_line","ff_by_line","next_by_line"]
def run(cs,meth,g="g"):
    with contextlib.redirect_stdout(io.StringIO()):
        if meth=="collect_paths": cs.collect_paths(pathsname=g, filename="f")
        elif meth=="ff_paths": cs.fast_forward_paths(pathsname=g, filename="f")
        elif meth=="next_paths_c": list(cs.next_paths(pathsname=g, filename="f", collect=True))
        elif meth=="next_paths": list(cs.next_paths(pathsname=g, filename="f"))
        elif meth=="collect_by_line": cs.collect_by_line(pathsname=g, filename="f")
        elif meth=="ff_by_line": cs.fast_forward_by_line(pathsname=g, filename="f")
        else: list(cs.next_by_line(pathsname=g, filename="f"))
seed0=int(sys.argv[1]); N=int(sys.argv[2]); bad={}; n=0
for seed in range(seed0,seed0+N):
    rng=random.Random(seed)
    for d in ("archive","inputs","cache"): shutil.rmtree(d, ignore_errors=True)
    nrec=rng.randint(2,8)
    blanks={i for i in range(1,nrec) if rng.random()<0.15}
    lines=[i for i in range(nrec) if i not in blanks]
    planted={i for i in lines if i>=1 and rng.random()<0.3}
    with open("f4.csv","w",newline="") as f:
        w=csv.writer(f)
        for i in range(nrec):
            if i in blanks: w.writerow([])
            elif i==0: w.writerow(["id","c"])
            else: w.writerow([f"r{i}","FAILHERE" if i in planted else "ok"])
    k=rng.randint(1,4); members=[]; exp=[]
    for m in range(k):
        fam=rng.choice(["plain","no","fas","onmatch","after_stop","after_skip","when_false"])
        K=rng.randint(0,nrec)
        if fam=="plain": body=f'push("b", valid()) line_number() == {K} -> fail() push("a", valid())'; first=K if K in lines else None
        elif fam=="no": body='no() -> fail() push("a", valid())'; first=None
        elif fam=="fas": body='push("b", valid()) #c == "FAILHERE" -> fail_and_stop() push("a", valid())'; first=min(planted) if planted else None
        elif fam=="onmatch": body='#c == "FAILHERE" fail.onmatch()'; first=min(planted) if planted else None
        elif fam=="after_stop": body=f'line_number() == {K} -> stop() line_number() == {K} -> fail() push("a", valid())'; first=None
        elif fam=="after_skip": body=f'line_number() == {K} -> skip() line_number() == {K} -> fail() push("a", valid())'; first=None
        else: body=f'#c == "NEVER" -> fail() push("a", valid())'; first=None
        members.append(f'~id:m{m}~ $[*][ {body} ]'); exp.append((fam,first))
    meth=rng.choice(METHS)
    cs=CsvPaths(); cs.file_manager.add_named_file(name="f", path="f4.csv"); cs.paths_manager.add_named_paths(name="g", paths=members)
    try: run(cs,meth)
    except Exception as e:
        bad.setdefault("EXC",[]).append((seed,meth,members,repr(e)[:100])); continue
    n+=1; probs=[]
    rs=cs.results_manager.get_named_results("g")
    want=[f is None for _,f in exp]
    for i,r in enumerate(rs):
        fam,first=exp[i]
        if r.csvpath.is_valid!=want[i]: probs.append(f"member_verdict {fam} got {r.csvpath.is_valid} first={first}")
        if r.is_valid!=want[i]: probs.append(f"result_is_valid {fam}")
        a=r.csvpath.variables.get("a"); b=r.csvpath.variables.get("b")
        for arr in (a,b):
            if arr:
                seenF=False
                for x in arr:
                    if x is False: seenF=True
                    elif seenF: probs.append(f"reset {fam} {arr}")
        m=rd(os.path.join(r.instance_dir,"manifest.json"))
        if m["valid"]!=want[i]: probs.append("member_manifest")
    if cs.results_manager.is_valid("g")!=all(want): probs.append("rm_is_valid")
    if rd(os.path.join(rs[0].run_dir,"manifest.json"))["all_valid"]!=all(want): probs.append("all_valid")
    for pr in probs: bad.setdefault(pr.split()[0]+" "+pr.split()[1] if len(pr.split())>1 else pr,[]).append((seed,meth,members,pr))
for kx,v in sorted(bad.items()): print(kx,len(v),v[0])
print("done",n)

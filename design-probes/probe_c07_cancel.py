import sys, random, io, contextlib, json, copy
argv=sys.argv[:]
sys.argv=["x","0","0"]
exec(open(__import__("os").path.join(__import__("os").path.dirname(__import__("os").path.abspath(__file__)),"probe_c08_twins.py")).read().split("seed0=int")[0])
seed0=int(argv[1]); N=int(argv[2]); bad=0; tot=0
def st(c,tp): return copy.deepcopy(dict(vars=c.variables, printed=list(tp.lines), valid=c.is_valid, scan=c.scan_count, match=c.match_count, stopped=c.stopped, errs=errs_of(c.errors)))
def mk():
    c=CsvPath(); tp=TestPrinter(); c.add_printer(tp); return c,tp
for seed in range(seed0,seed0+N):
    rng=random.Random(seed); hdr,nl=gen_file(rng,"f.csv")
    p=gen_path(rng,hdr,nl,"m0").replace("$[","$f.csv[")
    try:
      with contextlib.redirect_stdout(io.StringIO()):
        c,tp=mk(); snaps=[]; Y=[]
        for l in c.next(p): Y.append(l[:]); snaps.append(st(c,tp))
        fin=st(c,tp)
        c,tp=mk(); L=c.collect(p); sc=st(c,tp)
        c,tp=mk(); c.fast_forward(p); sf=st(c,tp)
        ok = (L==Y and J(sc)==J(fin) and J(sf)==J(fin))
        if not ok:
            bad+=1; print("seed",seed,"ENTRY DIFF",p); print("  next",J(fin)[:300]); print("  coll",J(sc)[:300]); print("  ff  ",J(sf)[:300])
        for n in range(1,len(Y)+2):
            tot+=1
            c,tp=mk(); Ln=c.collect(p,nexts=n); s=st(c,tp)
            exp=snaps[n-1] if n<=len(snaps) else fin
            if Ln!=Y[:n] or J(s)!=J(exp):
                bad+=1; print("seed",seed,"NEXTS",n,"of",len(Y),p); print("   got",J(s)[:300]); print("   exp",J(exp)[:300]); break
    except Exception as e:
        print("seed",seed,"EXC",type(e).__name__,str(e)[:100],p)
print("done bad",bad,"nexts checks",tot)

import datetime as _dt, sys, os, io, contextlib, random, json, csv, hashlib, shutil, uuid, types, time as _time
_real=_dt.datetime
class _Meta(type):
    def __instancecheck__(cls,obj): return isinstance(obj,_real)
class Clock:
    t=_real(2031,3,14,9,26,53,tzinfo=_dt.timezone.utc); reads=0
    @classmethod
    def read(cls):
        cls.reads+=1; cls.t+=_dt.timedelta(milliseconds=1); return cls.t
class SimDT(_real, metaclass=_Meta):
    @classmethod
    def now(cls,tz=None):
        t=Clock.read(); return t.astimezone(tz) if tz else t.replace(tzinfo=None)
_dt.datetime=SimDT
RNG=random.Random(42)
def uuid4(): return uuid.UUID(int=RNG.getrandbits(128), version=4)
uuid.uuid4=uuid4
import csvpath
from csvpath import CsvPaths
import csvpath.managers.metadata as md
md.uuid4=uuid4
class TimeShim(types.ModuleType):
    def __init__(self): super().__init__("time")
    def time(self): return Clock.read().timestamp()
    def perf_counter_ns(self): return int(Clock.read().timestamp()*1e9)
    def ctime(self, s=None): return "SIMCTIME"
    def __getattr__(self, n): return getattr(_time, n)
shim=TimeShim()
patched=[]
for name,mod in list(sys.modules.items()):
    if name.startswith("csvpath") and getattr(mod,"time",None) is _time:
        mod.time=shim; patched.append(name)
for d in ("archive","inputs","cache"): shutil.rmtree(d, ignore_errors=True)
PATHS=['~id:p0 unmatched-mode:keep~ $[*][ gt(#a,1) @x = #a  push("s", #b) print("l $.csvpath.line_number $.headers.b") ]',
 '~id:p1~ $[1*][ #a == 7 -> stop() @n = count() tally(#b) ]',
 '$[*][ @z = add(#a, 1) ]']
with contextlib.redirect_stdout(io.StringIO()):
    cs=CsvPaths(); cs.file_manager.add_named_file(name="f", path="d3.csv"); cs.paths_manager.add_named_paths(name="g", paths=PATHS)
    cs.collect_paths(pathsname="g", filename="f")
    cs2=CsvPaths(); cs2.collect_by_line(pathsname="g", filename="f")
h=hashlib.sha256()
files={}
for r,ds,fs in sorted(os.walk(".")):
    ds.sort()
    for f in sorted(fs):
        p=os.path.join(r,f)
        if p.startswith("./logs") or p.endswith(".py") or p.endswith(".txt") and "printouts" not in p: continue
        with open(p,"rb") as fh: b=fh.read()
        files[p]=hashlib.sha256(b).hexdigest()
print(json.dumps(files,sort_keys=True))
sys.stderr.write("patched time in: %s\n"%patched)

import sys, random, io, contextlib, json, csv, os, shutil
from csvpath import CsvPaths, CsvPath
def rd(p):
    with open(p,encoding="utf-8") as f: return json.load(f)
def filt(rng):
    k=rng.random()
    if k<0.3: return f'#1 == "{rng.choice("abc")}"'
    if k<0.5: return f'in(#1, "a|b")'
    if k<0.65: return f'not(#2 == "{rng.choice("xyz")}")'
    if k<0.8: return f'gt(line_number(), {rng.randint(0,3)})'
    if k<0.9: return 'yes()'
    return f'#2 == "{rng.choice("xyz")}"'
seed0=int(sys.argv[1]); N=int(sys.argv[2]); bad={}; n=0
for seed in range(seed0,seed0+N):
    rng=random.Random(seed)
    for d in ("archive","inputs","cache","stage"): shutil.rmtree(d, ignore_errors=True)
    os.makedirs("stage")
    nrec=rng.randint(2,9)
    rows=[["id","h1","h2"]]+[[f"r{i}",rng.choice("abc"),rng.choice(["x","y","z","q,uo","multi\nline"])] if rng.random()>0.1 else [] for i in range(1,nrec)]
    with open("f20.csv","w",newline="") as f: csv.writer(f).writerows(rows)
    k=rng.randint(2,4); first_prec=rng.randint(1,k-1)
    fs=[filt(rng) for _ in range(k)]
    paths=[f'~id:s{i}{" source-mode:preceding" if i>=first_prec else ""}~ $[*][ {fs[i]} @n{i} = count() ]' for i in range(k)]
    meth=rng.choice(["collect_paths","next_paths_c"])
    # reference composition
    exp=[]; src="f20.csv"; prev_lines=None; origin="f20.csv"
    with contextlib.redirect_stdout(io.StringIO()):
        for i in range(k):
            if i>=first_prec:
                src=f"stage/s{i}.csv"
                with open(src,"w",newline="") as f: csv.writer(f).writerows(prev_lines)
                if not prev_lines: exp.append(None); prev_lines=None; break
            else: src="f20.csv"
            c=CsvPath(); L=c.collect(f'${src}[*][ {fs[i]} @n{i} = count() ]')
            exp.append((L,dict(c.variables))); prev_lines=L
    empty_pred = any(e is None for e in exp)
    cs=CsvPaths(); cs.file_manager.add_named_file(name="f", path="f20.csv"); cs.paths_manager.add_named_paths(name="g", paths=paths)
    exc=None
    with contextlib.redirect_stdout(io.StringIO()):
        try:
            if meth=="collect_paths": cs.collect_paths(pathsname="g", filename="f")
            else: list(cs.next_paths(pathsname="g", filename="f", collect=True))
        except Exception as e: exc=e
    n+=1; probs=[]
    if exc is not None:
        probs.append(("exc_empty_pred" if empty_pred else "exc")+" "+type(exc).__name__)
    else:
        rs=cs.results_manager.get_named_results("g")
        if empty_pred: probs.append("empty_pred_no_exc?")
        for i,r in enumerate(rs):
            if i>=len(exp) or exp[i] is None: break
            got=list(r.lines.next())
            if got!=exp[i][0]: probs.append(f"lines s{i} got {got} exp {exp[i][0]}")
            if {k:v for k,v in r.csvpath.variables.items()}!=exp[i][1]: probs.append(f"vars s{i} {r.csvpath.variables} {exp[i][1]}")
            m=rd(os.path.join(r.instance_dir,"manifest.json"))
            want = rs[i-1].data_file_path if i>=first_prec else cs.file_manager.get_named_file("f")
            if m["actual_data_file"]!=want: probs.append(f"actual_data_file s{i} {m['actual_data_file']} {want}")
    for pr in probs: bad.setdefault(pr.split()[0],[]).append((seed,meth,paths,pr[:300]))
for kx,v in sorted(bad.items()): print(kx,len(v),v[0])
print("done",n)

import itertools, io, contextlib, traceback
from csvpath import CsvPath
from csvpath.util.config import Config
from csvpath.util.printer import TestPrinter
FLAGS=["raise","collect","stop","fail","print","quiet"]
def run(policy, path):
    cfg=Config()
    cfg.csvpath_errors_policy=policy
    p=CsvPath(config=cfg, print_default=False)
    tp=TestPrinter(); p.add_printer(tp)
    exc=None; lines=None
    try:
        lines=p.collect(path)
    except Exception as e:
        exc=type(e).__name__+":"+str(e)[:60]
    return dict(lines=lines, exc=exc, errs=[(e.line_count, type(e.error).__name__) for e in (p.errors or [])], valid=p.is_valid, stopped=p.stopped, printed=len(tp.lines))
paths = {
 "div0": '$data.csv[*][ @x = divide(#a, subtract(#a, 4)) ]',
 "argtype": '$data.csv[*][ add(#a, "x") ]',
 "rule": '$data.csv[1*][ @x = int("abc") ]',
}
for name,path in paths.items():
    for pol in (["raise"],["collect"],["stop"],["fail"],["print"],["quiet"],["collect","fail","stop","print"],["quiet","collect"]):
        try:
            print(name, pol, run(pol,path))
        except Exception as e:
            print(name,pol,"HARNESS EXC", repr(e)[:200])

import sys, random, io, contextlib, json, copy, csv, os, hashlib, shutil
argv=sys.argv[:]
sys.argv=["x","0","0"]
exec(open(__import__("os").path.join(__import__("os").path.dirname(__import__("os").path.abspath(__file__)),"probe_c08_twins.py")).read().split("seed0=int")[0])
from csvpath.util.line_spooler import CsvLineSpooler
TEE={}
_orig=CsvLineSpooler.append
def _tee(self,line):
    TEE.setdefault(id(self.result),[]).append(list(line)); return _orig(self,line)
CsvLineSpooler.append=_tee
seed0=int(argv[1]); N=int(argv[2]); bad=0
METHS=["collect_paths","ff_paths","next_paths","next_paths_c","collect_by_line","ff_by_line","next_by_line"]
def sha(p):
    with open(p,"rb") as f: return hashlib.sha256(f.read()).hexdigest()
def rd(p):
    with open(p,encoding="utf-8") as f: return json.load(f)
def rcsv(p):
    with open(p,newline="",encoding="utf-8") as f: return list(csv.reader(f))
for seed in range(seed0,seed0+N):
    rng=random.Random(seed)
    for d in ("archive","inputs","cache"): shutil.rmtree(d, ignore_errors=True)
    hdr,nl=gen_file(rng,"f.csv"); k=rng.randint(1,3)
    paths=[gen_path(rng,hdr,nl,f"m{i}") for i in range(k)]
    if rng.random()<0.5: paths[0]=paths[0].replace("~id:m0~","~id:m0 unmatched-mode:keep~")
    meth=rng.choice(METHS); TEE.clear()
    probs=[]
    try:
      with contextlib.redirect_stdout(io.StringIO()):
        cs=CsvPaths(); cs.file_manager.add_named_file(name="f", path="f.csv"); cs.paths_manager.add_named_paths(name="g", paths=paths)
        if meth=="collect_paths": cs.collect_paths(pathsname="g", filename="f")
        elif meth=="ff_paths": cs.fast_forward_paths(pathsname="g", filename="f")
        elif meth=="next_paths": list(cs.next_paths(pathsname="g", filename="f"))
        elif meth=="next_paths_c": list(cs.next_paths(pathsname="g", filename="f", collect=True))
        elif meth=="collect_by_line": cs.collect_by_line(pathsname="g", filename="f")
        elif meth=="ff_by_line": cs.fast_forward_by_line(pathsname="g", filename="f")
        else: list(cs.next_by_line(pathsname="g", filename="f"))
      rs=cs.results_manager.get_named_results("g")
      rm=rd(os.path.join(rs[0].run_dir,"manifest.json"))
      if rm["status"]!="complete": probs.append("status")
      if rm["all_valid"]!=all(r.csvpath.is_valid for r in rs): probs.append("all_valid")
      if rm["all_completed"]!=all(r.csvpath.completed for r in rs): probs.append("all_completed")
      if rm["error_count"]!=sum(len(r.errors) for r in rs): probs.append("error_count")
      for r in rs:
        d=os.path.join(rs[0].run_dir, r.identity_or_index)
        v=rd(os.path.join(d,"vars.json"))
        if v!=json.loads(json.dumps(r.csvpath.variables)): probs.append(f"vars {r.identity_or_index}")
        e=rd(os.path.join(d,"errors.json"))
        if [(x["line_count"]) for x in e]!=[x.line_count for x in r.errors]: probs.append("errors")
        m=rd(os.path.join(d,"manifest.json"))
        if m["valid"]!=r.csvpath.is_valid or m["completed"]!=r.csvpath.completed: probs.append("member flags")
        present=sorted(f for f in os.listdir(d) if f!="manifest.json")
        if sorted(m["file_fingerprints"])!=present: probs.append(f"fp set {present} {sorted(m['file_fingerprints'])}")
        for fn,h in m["file_fingerprints"].items():
            if sha(os.path.join(d,fn))!=h: probs.append("fp "+fn)
        tee=TEE.get(id(r),[])
        dp=os.path.join(d,"data.csv")
        data=rcsv(dp) if os.path.exists(dp) else []
        if data!=[[str(c) for c in l] for l in tee]: probs.append(f"data {data} tee {tee}")
        up=os.path.join(d,"unmatched.csv")
        um=rcsv(up) if os.path.exists(up) else []
        if um!=[[str(c) for c in l] for l in (r.unmatched or [])]: probs.append(f"unmatched {um} vs {r.unmatched}")
        pp=os.path.join(d,"printouts.txt")
        exp="".join(f"---- PRINTOUT: {k}\n"+"".join(f"{l}\n" for l in v) for k,v in r.get_printouts().items())
        got=open(pp,encoding="utf-8").read() if os.path.exists(pp) else ""
        if (exp if r.print_statements_count()>0 else "")!=got: probs.append("printouts")
    except Exception as e:
        import traceback
        probs.append("EXC "+type(e).__name__+" "+str(e)[:200]+traceback.format_exc()[-400:])
    if probs:
        bad+=1; print("seed",seed,meth,probs[:3]); print("    ",paths)
print("done bad",bad)

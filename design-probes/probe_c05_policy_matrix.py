import sys, random, io, contextlib, json, itertools, csv
from csvpath import CsvPath
from csvpath.util.config import Config
from csvpath.util.printer import TestPrinter
from csvpath.matching.functions.function_factory import FunctionFactory
from csvpath.matching.functions.function_focus import MatchDecider, ValueProducer
from csvpath.matching.functions.args import Args
PLAN=set()
def ln(self): return self.matcher.csvpath.line_monitor.physical_line_number
class SimFault(MatchDecider):
    def check_valid(self):
        self.args = Args(matchable=self); self.args.argset(0); self.args.validate(self.siblings()); super().check_valid()
    def _produce_value(self, skip=None): self.value = self.matches(skip=skip)
    def _decide_match(self, skip=None):
        if ln(self) in PLAN: raise RuntimeError(f"simfault at line {ln(self)}")
        self.match = self.default_match()
class SimFaultV(ValueProducer):
    def check_valid(self):
        self.args = Args(matchable=self); self.args.argset(0); self.args.validate(self.siblings()); super().check_valid()
    def _produce_value(self, skip=None):
        if ln(self) in PLAN: raise RuntimeError(f"simfaultv at line {ln(self)}")
        self.value = 1
    def _decide_match(self, skip=None): self.match = self.default_match()
FunctionFactory.add_function("simfault", SimFault(None,"simfault"))
FunctionFactory.add_function("simfaultv", SimFaultV(None,"simfaultv"))
FLAGS=["raise","collect","stop","fail","print","quiet"]
KINDS={
 "exc_match": 'simfault()',
 "exc_value": '@v = simfaultv()',
 "arg_type": '@s = add(#n, 1)',
 "rule": '@t = substring(#w, #k)',
 "nested_when": 'yes() -> @x = add(#n, 1)',
 "nested_not": 'not(simfault())',
}
seed0=int(sys.argv[1]); N=int(sys.argv[2]); bad={}
for seed in range(seed0,seed0+N):
    rng=random.Random(seed)
    nrec=rng.randint(2,8)
    blanks={i for i in range(1,nrec) if rng.random()<0.15}
    lines=[i for i in range(nrec) if i not in blanks]
    kind=rng.choice(list(KINDS))
    datadriven = kind in ("arg_type","rule","nested_when")
    cand=[l for l in lines if l>=1] if datadriven else lines
    if not cand: continue
    F=set(rng.sample(cand, rng.randint(1,min(3,len(cand)))))
    PLAN.clear(); PLAN.update(F)
    with open("f5.csv","w",newline="") as f:
        w=csv.writer(f)
        for i in range(nrec):
            if i in blanks: w.writerow([]); continue
            if i==0 and datadriven: w.writerow(["id","n","w","k"]); continue
            w.writerow([f"r{i}", "zz" if i in F else str(rng.randint(1,9)), "word", "-1" if i in F else "2"])
    pol=[fl for fl in FLAGS if rng.random()<0.5]
    scan = "1*" if datadriven else "*"
    lines=[l for l in lines if (l>=1 or not datadriven)]
    p=f'$f5.csv[{scan}][ push("pre", line_number()) {KINDS[kind]} push("post", line_number()) ]'
    cfg=Config(); cfg.csvpath_errors_policy=pol
    c=CsvPath(config=cfg); tp=TestPrinter(); c.add_printer(tp)
    exc=None; L=None
    with contextlib.redirect_stdout(io.StringIO()):
        try: L=c.collect(p)
        except Exception as e: exc=e
    pre=c.variables.get("pre",[])
    f1=min(F)
    probs=[]
    if "quiet" in pol and exc is not None and type(exc).__name__=="AttributeError": probs.append("QUIET-CRASH")
    else:
        if (exc is not None)!=("raise" in pol): probs.append(f"raise exc={type(exc).__name__ if exc else None}")
        cont = any(l>f1 for l in pre)
        if cont != (("raise" not in pol) and ("stop" not in pol) and any(l>f1 for l in lines)): probs.append(f"stop pre={pre}")
        ev=[l for l in F if l in pre]
        errl=sorted({e.line_count for e in (c.errors or [])})
        if "collect" in pol:
            if errl!=sorted(ev): probs.append(f"collect errl={errl} ev={ev}")
        elif errl: probs.append(f"collected without collect {errl}")
        if c.is_valid != (not("fail" in pol and ev)): probs.append(f"fail valid={c.is_valid}")
        if bool(tp.lines)!=("print" in pol and bool(ev)): probs.append(f"print {tp.lines}")
        if L is not None:
            ret=[int(l[0][1:]) if l[0].startswith("r") else 0 for l in L]
            if any(r in F for r in ret): probs.append(f"planted returned {ret}")
    for pr in probs:
        key=(kind, pr.split()[0])
        bad.setdefault(key,[]).append((seed,pol,sorted(F),pr))
for k,v in sorted(bad.items()): print(k,len(v),v[0])
print("done", sum(len(v) for v in bad.values()))

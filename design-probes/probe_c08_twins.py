import random, csv, io, contextlib, json, os, shutil, sys, copy
from csvpath import CsvPath, CsvPaths
from csvpath.util.printer import TestPrinter
def gen_file(rng, path):
    n=rng.randint(1,9); rows=[]
    ncol=rng.randint(2,4)
    hdr=["id"]+[f"h{i}" for i in range(1,ncol)]
    rows.append(hdr)
    for i in range(n):
        if rng.random()<0.15: rows.append([]); continue
        r=[f"r{i}"]
        for c in range(1,ncol):
            k=rng.random()
            if k<0.4: r.append(str(rng.randint(0,12)))
            elif k<0.7: r.append(rng.choice(["a","b","c","FAIL"]))
            elif k<0.8: r.append("")
            else: r.append(rng.choice(["x y","ü","0.5"]))
        if rng.random()<0.1: r=r[:-1]
        rows.append(r)
    if rng.random()<0.2: rows.append([])
    with open(path,"w",newline="") as f:
        w=csv.writer(f); 
        for r in rows: w.writerow(r)
    return hdr, len(rows)
def cond(rng,hdr,nlines):
    k=rng.random()
    h=rng.choice(hdr[1:])
    if k<0.3: return f'line_number() == {rng.randint(0,nlines)}'
    if k<0.5: return f'#{h} == "{rng.choice(["a","b","FAIL","3"])}"'
    if k<0.6: return f'in(#{h}, "a|b|3")'
    if k<0.7: return f'not(#{h} == "a")'
    if k<0.8: return f'empty(#{h})'
    if k<0.9: return f'gt(count_lines(), {rng.randint(1,5)})'
    return 'yes()'
def comp(rng,hdr,nlines,i):
    k=rng.random(); h=rng.choice(hdr[1:])
    if k<0.12: return f'@v{i} = #{h}'
    if k<0.2: return f'@t{i}.{rng.choice(["k","j"])} = line_number()'
    if k<0.3: return f'push("s{i}", #{h})'
    if k<0.36: return f'push("ln{i}", line_number())'
    if k<0.42: return f'tally(#{h})'
    if k<0.48: return f'@c{i} = count()'
    if k<0.54: return f'print("p{i} $.csvpath.line_number $.headers.{h}")'
    if k<0.60: return f'{cond(rng,hdr,nlines)} -> stop()'
    if k<0.66: return f'{cond(rng,hdr,nlines)} -> skip()'
    if k<0.72: return f'{cond(rng,hdr,nlines)} -> advance({rng.randint(1,3)})'
    if k<0.78: return f'{cond(rng,hdr,nlines)} -> fail()'
    if k<0.82: return f'last() -> @last{i} = count_lines()'
    if k<0.86: return f'@a{i} = add(#{h}, 1)'
    if k<0.90: return f'{cond(rng,hdr,nlines)} -> @w{i} = concat(#{h}, "z")'
    if k<0.94: return f'@o{i}.onmatch = count_scans()'
    return cond(rng,hdr,nlines)
def scan(rng,n):
    k=rng.random()
    if k<0.6: return "*"
    if k<0.75: return f"{rng.randint(0,n)}*"
    if k<0.9:
        a=rng.randint(0,n); b=rng.randint(a,n+1); return f"{a}-{b}"
    a=rng.randint(1,n); return f"{a}+{a+2}"
def gen_path(rng,hdr,nlines,ident):
    comps=[comp(rng,hdr,nlines,i) for i in range(rng.randint(1,5))]
    return f'~id:{ident}~ $[{scan(rng,nlines)}][ ' + "  ".join(comps) + ' ]'
def snap(c, lines, printed, errs):
    return dict(lines=lines, vars=c.variables, printed=printed, valid=c.is_valid, scan=c.scan_count, match=c.match_count, errs=errs)
J=lambda o: json.dumps(o,sort_keys=True,default=str)
def errs_of(es): return [(e.line_count, str(e.error)[:60]) for e in (es or [])]
seed0=int(sys.argv[1]); N=int(sys.argv[2]); bad=0
for seed in range(seed0,seed0+N):
    rng=random.Random(seed)
    for d in ("archive","inputs","cache"): shutil.rmtree(d, ignore_errors=True)
    hdr,nl=gen_file(rng,"f.csv")
    k=rng.randint(1,3)
    paths=[gen_path(rng,hdr,nl,f"m{i}") for i in range(k)]
    res={}
    try:
      with contextlib.redirect_stdout(io.StringIO()):
        alone={}
        for i,p in enumerate(paths):
            c=CsvPath(); tp=TestPrinter(); c.add_printer(tp)
            L=c.collect(p.replace("$[","$f.csv["))
            alone[f"m{i}"]=snap(c,L,tp.lines,errs_of(c.errors))
        out={}
        for meth in ("serial","byline"):
            cs=CsvPaths(); cs.file_manager.add_named_file(name="f", path="f.csv"); cs.paths_manager.add_named_paths(name="g", paths=paths)
            if meth=="serial": cs.collect_paths(pathsname="g", filename="f")
            else: cs.collect_by_line(pathsname="g", filename="f")
            out[meth]={r.identity_or_index: snap(r.csvpath, list(r.lines.next()), r.printouts, errs_of(r.errors)) for r in cs.results_manager.get_named_results("g")}
    except Exception as e:
        print("seed",seed,"EXC",type(e).__name__,str(e)[:150]); print("   ",paths); continue
    for m in alone:
        for meth in ("serial","byline"):
            if J(alone[m])!=J(out[meth].get(m)):
                bad+=1
                print("seed",seed,m,meth,"DIFF"); print("   path ",paths[int(m[1:])]); print("   alone",J(alone[m])[:400]); print("   "+meth,J(out[meth].get(m))[:400]); break
print("done bad",bad)

import sys, random, io, contextlib, json, copy, shutil
argv=sys.argv[:]
sys.argv=["x","0","0"]
exec(open(__import__("os").path.join(__import__("os").path.dirname(__import__("os").path.abspath(__file__)),"probe_c08_twins.py")).read().split("seed0=int")[0])
seed0=int(argv[1]); N=int(argv[2]); bad=0
for seed in range(seed0,seed0+N):
    rng=random.Random(seed)
    for d in ("archive","inputs","cache"): shutil.rmtree(d, ignore_errors=True)
    hdr,nl=gen_file(rng,"f.csv")
    p=gen_path(rng,hdr,nl,"m0").replace("$[","$f.csv[")
    outs=[]
    try:
      with contextlib.redirect_stdout(io.StringIO()):
        for how in ("direct","managed","managed_warm","direct2"):
            if how.startswith("direct"): c=CsvPath()
            else: c=CsvPaths().csvpath()
            tp=TestPrinter(); c.add_printer(tp)
            L=c.collect(p); s=snap(c,L,tp.lines,errs_of(c.errors)); s["headers"]=c.headers
            outs.append(J(s))
    except Exception as e:
        print("seed",seed,"EXC",type(e).__name__,str(e)[:100],p); continue
    if len(set(outs))!=1:
        bad+=1; print("seed",seed,"DIFF",p)
        for o in outs: print("   ",o[:300])
print("done bad",bad)

import sys, random, io, contextlib, json, os, shutil, hashlib
from csvpath import CsvPaths
def sha(b): return hashlib.sha256(b).hexdigest()
CONT=[b"a,b\n1,2\n", b"a,b\n3,4\n", b"x\n"]
SRC=["s/one.csv","s/two.csv","t/one.csv"]
seed0=int(sys.argv[1]); N=int(sys.argv[2]); bad={}; ops_total=0
def rd(p):
    with open(p,encoding="utf-8") as f: return json.load(f)
for seed in range(seed0,seed0+N):
    rng=random.Random(seed)
    for d in ("archive","inputs","cache","s","t"): shutil.rmtree(d, ignore_errors=True)
    os.makedirs("s"); os.makedirs("t")
    cur={}   # src -> bytes
    model={} # name -> list of (sha, basename)
    blobs={} # name -> {path: bytes}
    cs=CsvPaths(); hist=[]
    real_listdir=os.listdir
    for step in range(rng.randint(2,10)):
        k=rng.random(); ops_total+=1
        if k<0.3:
            src=rng.choice(SRC); c=rng.choice(CONT+[b"fresh%d\n"%rng.randint(0,99)])
            with open(src,"wb") as f: f.write(c)
            cur[src]=c; hist.append(("write",src,c))
        elif k<0.7:
            src=rng.choice(SRC); name=rng.choice(["n1","n2"])
            if src not in cur: continue
            cs.file_manager.add_named_file(name=name, path=src); hist.append(("add",name,src))
            ent=(sha(cur[src]), os.path.basename(src))
            lst=model.setdefault(name,[])
            if not lst or lst[-1]!=ent: lst.append(ent)
            blobs.setdefault(name,{})
        elif k<0.8:
            name=rng.choice(["n1","n2"])
            if name in model:
                cs.file_manager.remove_named_file(name); del model[name]; blobs.pop(name,None); hist.append(("remove",name))
        else:
            cs=CsvPaths(); hist.append(("restart",))
        # check
        probs=[]
        chk=CsvPaths() if rng.random()<0.5 else cs
        if sorted(chk.file_manager.named_file_names)!=sorted(model): probs.append(f"names {chk.file_manager.named_file_names} {list(model)}")
        for name,lst in model.items():
            p=chk.file_manager.get_named_file(name)
            with open(p,"rb") as f: b=f.read()
            if sha(b)!=lst[-1][0]: probs.append("bytes")
            if not os.path.basename(p).startswith(lst[-1][0]): probs.append("basename")
            man=rd(f"inputs/named_files/{name}/manifest.json")
            if [m["fingerprint"] for m in man]!=[e[0] for e in lst]: probs.append(f"manifest {len(man)} vs {len(lst)}")
            if chk.file_manager.get_fingerprint_for_name(name)!=lst[-1][0]: probs.append("fp")
            blobs[name][p]=b
            for bp,bb in blobs[name].items():
                if not os.path.exists(bp): probs.append("blob gone")
                else:
                    with open(bp,"rb") as f:
                        if f.read()!=bb: probs.append("blob changed")
        for n in ("n1","n2"):
            if n not in model and chk.file_manager.get_named_file(n) is not None: probs.append("removed still there")
        for pr in probs: bad.setdefault(pr.split()[0],[]).append((seed,hist[-4:],pr))
        if probs: break
for kx,v in sorted(bad.items()): print(kx,len(v),v[0])
print("done ops",ops_total)

import csv, io, contextlib, json, sys
from csvpath import CsvPaths
with open("q.csv","w",newline="") as f:
    w=csv.writer(f); w.writerows([['id','"q"','a b','x\ny'],['r0','1','2','3'],['r1','4','5','6']])
cs=CsvPaths()
with contextlib.redirect_stdout(io.StringIO()):
    p=cs.csvpath(); L=p.collect('$q.csv[*][ @n = count_headers() @h = header_name(1) #"a b" == 5 ]')
print(json.dumps([p.headers, p.variables, [l[0] for l in L]]))

import sys, random, io, contextlib, json, os, shutil, hashlib
from csvpath import CsvPaths
def rd(p):
    with open(p,encoding="utf-8") as f: return json.load(f)
KEYS=["id","Id","ID","name","Name","NAME"]
def member(rng,i):
    ident=None; cm=""
    k=rng.random()
    if k<0.7:
        key=rng.choice(KEYS); ident=f"m{i}x{rng.randint(0,9)}"
        extra=rng.choice([""," description: some words here","\n   note: multi\n   line text"," validation-mode: no-raise, print"])
        cm=f"~ {key}: {ident}{extra} ~\n"
    elif k<0.8:
        cm="~ just a free comment, no fields ~ "
    inner=rng.choice([""," ~ inner comment ~ ","\n    ~ inner: looks like meta ~\n    "])
    body=rng.choice(['yes()','#a == "x"\n    @v = #b','print("hello $.csvpath.line_number")  no()','@x = count()  last() -> print("done")'])
    scan=rng.choice(["*","1*","0-3"])
    return ident, f"{cm}$[{scan}][{inner}{body} ]"
seed0=int(sys.argv[1]); N=int(sys.argv[2]); bad={}; ops=0
for seed in range(seed0,seed0+N):
    rng=random.Random(seed)
    for d in ("archive","inputs","cache"): shutil.rmtree(d, ignore_errors=True)
    cs=CsvPaths(); model={}; versions={}; hist=[]
    for step in range(rng.randint(2,8)):
        k=rng.random(); ops+=1; g=rng.choice(["g1","g2"])
        if k<0.5:
            ms=[]; used=set()
            for i in range(rng.randint(1,5)):
                ident,txt=member(rng,i)
                if ident in used: ident=None; txt=txt[txt.find("$"):]
                used.add(ident); ms.append((ident,txt))
            if rng.random()<0.3 and g in model: ms=model[g]
            cs.paths_manager.add_named_paths(name=g, paths=[t for _,t in ms]); hist.append(("add",g,len(ms)))
            old=model.get(g)
            if old is None or [t for _,t in old]!=[t for _,t in ms]: versions[g]=versions.get(g,0)+1
            model[g]=ms
        elif k<0.65:
            if g in model:
                cs.paths_manager.remove_named_paths(g); del model[g]; versions.pop(g,None); hist.append(("remove",g))
        elif k<0.8:
            cs=CsvPaths(); hist.append(("restart",))
        probs=[]
        chk=CsvPaths() if rng.random()<0.5 else cs
        for g2,ms in model.items():
            got=chk.paths_manager.get_named_paths(g2)
            if [x.strip() for x in got]!=[t.strip() for _,t in ms]: probs.append(f"roundtrip {g2}")
            ids=[i for i,_ in ms if i]
            for ident in ids:
                one=chk.paths_manager.get_named_paths(f"{g2}#{ident}")
                exp=[t for i,t in ms if i==ident][0]
                if [x.strip() for x in one]!=[exp.strip()]: probs.append(f"hash-id {ident}")
                one=chk.paths_manager.get_named_paths(f"${g2}.csvpaths.{ident}")
                if [x.strip() for x in one]!=[exp.strip()]: probs.append(f"ref-id {ident}")
                pos=[i for i,_ in ms].index(ident)
                fr=chk.paths_manager.get_named_paths(f"${g2}.csvpaths.{ident}:from")
                to=chk.paths_manager.get_named_paths(f"${g2}.csvpaths.{ident}:to")
                if [x.strip() for x in fr]!=[t.strip() for _,t in ms[pos:]]: probs.append(f"from {ident}")
                if [x.strip() for x in to]!=[t.strip() for _,t in ms[:pos+1]]: probs.append(f"to {ident}")
            man=rd(f"inputs/named_paths/{g2}/manifest.json")
            if len(man)!=versions[g2]: probs.append(f"manifest len {len(man)} vs {versions[g2]}")
            with open(f"inputs/named_paths/{g2}/group.csvpaths","rb") as f: fp=hashlib.sha256(f.read()).hexdigest()
            if man[-1]["fingerprint"]!=fp: probs.append("fingerprint")
        for g2 in ("g1","g2"):
            if g2 not in model and chk.paths_manager.get_named_paths(g2) is not None: probs.append("removed present")
        for pr in probs: bad.setdefault(pr.split()[0],[]).append((seed,hist[-3:],pr,[t for _,t in model.get(g,[])][:2]))
        if probs: break
for kx,v in sorted(bad.items()): print(kx,len(v),v[0])
print("done ops",ops)

import datetime as _dt, sys, os, io, contextlib, random, json, csv, hashlib, shutil
_real=_dt.datetime
class _Meta(type):
    def __instancecheck__(cls,obj): return isinstance(obj,_real)
class Clock: t=None
class SimDT(_real, metaclass=_Meta):
    @classmethod
    def now(cls,tz=None):
        t=Clock.t; return t.astimezone(tz) if tz else t.replace(tzinfo=None)
_dt.datetime=SimDT
import csvpath
print("csvpath from", csvpath.__file__)
from csvpath import CsvPaths
_listdir=os.listdir
RNG=[None]
def listdir(p="."):
    r=_listdir(p); RNG[0].shuffle(r); return r
os.listdir=listdir
def tree(d):
    out={}
    for r,ds,fs in os.walk(d):
        for f in fs:
            p=os.path.join(r,f)
            with open(p,"rb") as fh: out[p]=hashlib.sha256(fh.read()).hexdigest()
    return out
METHS=["collect_paths","ff_paths","next_paths_c","collect_by_line","ff_by_line","next_by_line","next_paths"]
def run(cs,meth,g):
    with contextlib.redirect_stdout(io.StringIO()):
        if meth=="collect_paths": cs.collect_paths(pathsname=g, filename="f")
        elif meth=="ff_paths": cs.fast_forward_paths(pathsname=g, filename="f")
        elif meth=="next_paths_c": list(cs.next_paths(pathsname=g, filename="f", collect=True))
        elif meth=="next_paths": list(cs.next_paths(pathsname=g, filename="f"))
        elif meth=="collect_by_line": cs.collect_by_line(pathsname=g, filename="f")
        elif meth=="ff_by_line": cs.fast_forward_by_line(pathsname=g, filename="f")
        else: list(cs.next_by_line(pathsname=g, filename="f"))
    return cs.results_manager.get_named_results(g)[0].run_dir
with open("f10.csv","w",newline="") as f: csv.writer(f).writerows([["id","a"],["r1","1"],["r2","2"]])
seed0=int(sys.argv[1]); N=int(sys.argv[2]); bad={}; nruns=0
for seed in range(seed0,seed0+N):
    rng=random.Random(seed); RNG[0]=random.Random(seed+7)
    for d in ("archive","inputs","cache"): shutil.rmtree(d, ignore_errors=True)
    Clock.t=_real(2031,3,14,rng.choice([9,12,23]),rng.choice([26,59]),rng.choice([53,58]),tzinfo=_dt.timezone.utc)
    cs=CsvPaths(); cs.file_manager.add_named_file(name="f", path="f10.csv")
    for g in ("g1","g2"): cs.paths_manager.add_named_paths(name=g, paths=['~id:m~ $[*][ yes() ]'])
    runs=[]  # (group, second, dir, has_data, back_epoch)
    epoch=0; hist=[]
    for step in range(rng.randint(2,7)):
        prof=rng.choice(["same","+1s","+min","to1259","tomidnight","+12h","back"])
        t=Clock.t
        if prof=="+1s": t+=_dt.timedelta(seconds=1)
        elif prof=="+min": t+=_dt.timedelta(minutes=rng.randint(1,90), seconds=rng.randint(0,59))
        elif prof=="to1259":
            t2=t.replace(hour=12,minute=59,second=59); 
            if t2<=t: t2+=_dt.timedelta(days=1)
            t=t2+_dt.timedelta(seconds=rng.choice([0,1,2]))
        elif prof=="tomidnight":
            t2=t.replace(hour=23,minute=59,second=59)
            if t2<=t: t2+=_dt.timedelta(days=1)
            t=t2+_dt.timedelta(seconds=rng.choice([0,1,2]))
        elif prof=="+12h": t+=_dt.timedelta(hours=12)
        elif prof=="back": t-=_dt.timedelta(seconds=rng.choice([1,30,3600])); epoch+=1
        Clock.t=t
        if rng.random()<0.5: cs=CsvPaths(); inst="new"
        else: inst="reused"
        g=rng.choice(["g1","g2"]); meth=rng.choice(METHS)
        before=tree("archive")
        d=run(cs,meth,g); nruns+=1
        after=tree("archive")
        hist.append((prof,inst,g,meth,d))
        probs=[]
        if not d.startswith(f"archive/{g}/"): probs.append(f"wrong_group_dir {d}")
        if any(r[2]==d for r in runs): probs.append(f"dir_reused {d}")
        for p,h in before.items():
            if p=="archive/manifest.json": continue
            if after.get(p)!=h: probs.append(f"earlier_changed {p}")
        for p in after:
            if p not in before and not p.startswith(d+"/") and p!="archive/manifest.json": probs.append(f"wrote_outside {p}")
        sec=Clock.t.replace(microsecond=0)
        has_data=os.path.exists(os.path.join(d,"m","data.csv"))
        for (g0,s0,d0,h0,e0) in runs:
            if g0==g and e0==epoch and s0!=sec:
                if (os.path.basename(d0)<os.path.basename(d))!=(s0<sec): probs.append(f"order {d0} {d}")
        runs.append((g,sec,d,has_data,epoch))
        # :last
        mine=[r for r in runs if r[0]==g and r[4]==epoch] if all(r[4]==epoch for r in runs if r[0]==g) else None
        if mine:
            name=os.path.basename(d)
            for pref in (name[:4], name[:10], name[:13]):
                cand=[r for r in mine if os.path.basename(r[2]).startswith(pref)]
                mx=max(r[1] for r in cand); top=[r for r in cand if r[1]==mx]
                if len(top)==1 and top[0][3]:
                    try:
                        got=cs.file_manager.get_named_file(f"${g}.results.{pref}:last.m")
                        if got!=os.path.join(top[0][2],"m","data.csv"): probs.append(f"last {pref} got {got} want {top[0][2]}")
                    except Exception as e: probs.append(f"last_exc {type(e).__name__} {e}")
                mn=min(r[1] for r in cand); bot=[r for r in cand if r[1]==mn]
                if len(bot)==1 and bot[0][3]:
                    try:
                        got=cs.file_manager.get_named_file(f"${g}.results.{pref}:first.m")
                        if got!=os.path.join(bot[0][2],"m","data.csv"): probs.append(f"first {pref} got {got} want {bot[0][2]}")
                    except Exception as e: probs.append(f"first_exc {type(e).__name__} {e}")
        for pr in probs: bad.setdefault(pr.split()[0],[]).append((seed,hist[-3:],pr))
        if probs: break
for kx,v in sorted(bad.items()): print(kx,len(v),v[0])
print("done runs",nruns)
